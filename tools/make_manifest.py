#!/usr/bin/env python
"""Writes /verif/MANIFEST.json from the table below (kept in one place so it stays consistent)."""
import json
import os

VERIF = os.path.dirname(os.path.dirname(os.path.abspath(__file__)))
PY = "PYTHONHASHSEED=0 /venv/bin/python -m tv.run"

# id -> (category, technique, level text, level note, design ref)
CHECKS = {
    "C01": (
        "exploration",
        "hypothesis-generated well-formed encodings vs. independent reference decoder over the pinned layout snapshot",
        "Generated-input differential: every structure type, command code, session shape, union arm is produced by a "
        "deterministic coverage pass plus random search; the decoder's events must equal, element-wise and in length, the "
        "events an independent interpreter of the pinned layout derives from the same bytes. Exploration, not proof: it "
        "samples the infinite space of encodings but covers the finite type/command/arm space completely.",
        "Trusts layout/snapshot.json as the TPM 2.0 layout (C20 ties the live tables to it) and the reference decoder tv/refdec.py; "
        "the generator's own intent is cross-checked against the reference decoder on every case.",
        "DESIGN.md §3 C01",
    ),
}

NOT_YET = {}


def main():
    props = [json.loads(l) for l in open(os.path.join(VERIF, "properties.jsonl"))]
    checks = []
    na = []
    for p in props:
        pid = p["id"]
        if pid in CHECKS and os.path.exists(os.path.join(VERIF, "tv", "checks", pid.lower() + ".py")):
            cat, tech, text, note, ref = CHECKS[pid]
            checks.append(
                {
                    "property_id": pid,
                    "quick_cmd": f"{PY} {pid} --tier quick",
                    "thorough_cmd": f"{PY} {pid} --tier thorough",
                    "evidence_file": f"/verif/evidence/{pid}.json",
                    "replay_cmd_template": f"{PY} {pid} --replay {{path}}",
                    "engine": "tv",
                    "level_claimed": {"category": cat, "text": text, "design_ref": ref},
                    "level_note": note,
                    "technique": tech,
                }
            )
        else:
            na.append({"property_id": pid, "reason": NOT_YET.get(pid, "check designed (DESIGN.md §3) but not built yet; not claimed until it runs")})
    manifest = {
        "version": 1,
        "setup_cmd": "./setup.sh",
        "hooks": {
            "guard": "TPMSTREAM_VERIF",
            "enable": "no source hooks are needed: every property is observed through the public API, exceptions, iterators and subprocess output; checks import /repo/src directly (TPMSTREAM_SRC overrides)",
            "baseline_off_cmd": "cd /repo && /venv/bin/python -m pytest -ra -q -p no:cacheprovider --timeout=900 --continue-on-collection-errors",
            "source_commits": [],
            "add_only": True,
        },
        "engines": [
            {
                "name": "tv",
                "path": "/verif/tv",
                "serves_properties": [c["property_id"] for c in checks],
                "kind_free_text": "hypothesis property-based testing (16 seeded shards, collect-then-shrink, known-finding signatures) with an independent reference decoder over a pinned layout snapshot; atheris/libFuzzer for the fuzz tiers",
            }
        ],
        "checks": checks,
        "not_applicable": na,
        "notes": "All checks: cwd=/verif, honour VERIF_SEED and VERIF_TIER, rewrite evidence/<id>.json, exit 0/1/2 (2 = harness error or inconclusive, never a violation). Genuine defects repaired in /repo by 'fix:' commits are listed in known_findings.json.",
    }
    with open(os.path.join(VERIF, "MANIFEST.json"), "w") as f:
        json.dump(manifest, f, indent=1)
    print("MANIFEST.json:", len(checks), "checks,", len(na), "not claimed")


if __name__ == "__main__":
    main()
