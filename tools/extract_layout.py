#!/usr/bin/env python
"""Extract the wire layout tables of a tpmstream source tree into a plain JSON-able dict.

Used (a) once, to pin layout/snapshot.json from the pinned tree (python tools/extract_layout.py --pin),
and (b) by the C20 check, to re-extract the live tables of the tree under test and compare them
item by item with the pinned snapshot.  The extractor only reads the *declarations* (dataclass
fields, _valid_values items, _selected_by, _selectors, _list_size, _type_maps, masks); it never
decodes anything.
"""
import inspect
import json
import os
import sys
from dataclasses import fields, is_dataclass
from typing import Any


def _src():
    return os.environ.get("TPMSTREAM_SRC", "/repo/src")


def type_expr(t):
    if t is None or t is type(None):
        return "None"
    if t is Any:
        return "Any"
    if getattr(t, "__origin__", None) is list:
        (a,) = t.__args__
        return f"list[{type_expr(a)}]"
    return t.__name__


def _as_int(v):
    """int value of an enum member / AlgValue / int."""
    while hasattr(v, "_value"):
        v = v._value
    return int(v)


def _enum_members(cls):
    """Declared members of a tpm_enum class (own and inherited public attributes), in inspect order."""
    from tpmstream.spec.common.values import NamedRange

    out = []
    for name, attr in inspect.getmembers(cls):
        if name.startswith("_") or inspect.isroutine(attr):
            continue
        if isinstance(attr, NamedRange):
            out.append(
                {
                    "name": name,
                    "range": [attr._start, attr._end],
                    "basename": attr._basename,
                    "sep": attr._sep,
                    "nibbles": attr._index_nibbles,
                    "owner": attr._type.__name__,
                }
            )
        elif hasattr(attr, "_value") and hasattr(attr, "_name"):
            out.append({"name": name, "value": _as_int(attr), "owner": type(attr).__name__, "member_name": attr._name})
        else:
            out.append({"name": name, "other": repr(attr)})
    return out


def _valid_items(vv):
    """Flatten a ValidValues object into ordered items: intervals [lo, hi] inclusive, with naming info."""
    from tpmstream.spec.common.values import NamedRange

    items = []
    for v in vv._values:
        if isinstance(v, range):
            if v.step != 1:
                items.append({"kind": "odd-range", "repr": repr(v)})
            else:
                items.append({"kind": "range", "lo": v.start, "hi": v.stop - 1})
        elif isinstance(v, NamedRange):
            items.append(
                {
                    "kind": "named_range",
                    "lo": v._start,
                    "hi": v._end - 1,
                    "text": f"{v._type.__name__}.{v._basename}{v._sep}",
                    "nibbles": v._index_nibbles,
                }
            )
        elif isinstance(v, type):
            for m in _enum_members(v):
                if "range" in m:
                    items.append(
                        {
                            "kind": "named_range",
                            "lo": m["range"][0],
                            "hi": m["range"][1] - 1,
                            "text": f"{m['owner']}.{m['basename']}{m['sep']}",
                            "nibbles": m["nibbles"],
                        }
                    )
                elif "value" in m:
                    items.append({"kind": "member", "lo": m["value"], "hi": m["value"], "text": f"{m['owner']}.{m['member_name']}"})
                else:
                    items.append({"kind": "other", "repr": m["other"]})
        elif hasattr(v, "_value"):
            text = f"{type(v).__name__}.{getattr(v, '_name', None)}"
            items.append({"kind": "member", "lo": _as_int(v), "hi": _as_int(v), "text": text})
        elif isinstance(v, int):
            items.append({"kind": "int", "lo": v, "hi": v})
        else:
            items.append({"kind": "other", "repr": repr(v)})
    return items


def _intervals(items):
    iv = sorted((i["lo"], i["hi"]) for i in items if "lo" in i)
    out = []
    for lo, hi in iv:
        if out and lo <= out[-1][1] + 1:
            out[-1][1] = max(out[-1][1], hi)
        else:
            out.append([lo, hi])
    return out


def _primitive(cls):
    from tpmstream.spec.common.tpm_rc import TPM_RC

    d = {
        "bases": [b.__name__ for b in cls.__mro__[1:] if b is not object],
        "width": cls._int_size,
        "signed": bool(cls._signed),
    }
    is_enum = hasattr(cls, "class_iter")
    is_bitfield = hasattr(cls, "attributes") and not is_enum
    if cls is TPM_RC or issubclass(cls, TPM_RC):
        d["kind"] = "rc"
    elif is_bitfield:
        d["kind"] = "bitfield"
        masks = {}
        for name, attr in inspect.getmembers(cls):
            if name.startswith("_") or inspect.isroutine(attr):
                continue
            masks[name] = _as_int(attr)
        d["masks"] = masks
    elif is_enum:
        d["kind"] = "enum"
        d["members"] = _enum_members(cls)
    else:
        d["kind"] = "valueset"
    items = _valid_items(cls._valid_values)
    d["valid_items"] = items
    d["allowed"] = _intervals(items)
    return d


def _selected_by(cls):
    raw = []
    eff = {}
    for member, sel in cls._selected_by.items():
        if sel is None:
            key = None
        elif isinstance(sel, type):
            key = f"type:{sel.__name__}"
        else:
            key = _as_int(sel)
        raw.append([member, key])
        eff[key] = member  # reversed-dict rule: later declaration wins
    effective = sorted(([k, m] for k, m in eff.items() if isinstance(k, int)), key=lambda x: x[0])
    return raw, effective, eff.get(None)


def _struct(cls):
    d = {"fields": [[f.name, type_expr(f.type)] for f in fields(cls)]}
    ann = [[n, type_expr(t)] for n, t in cls.__dict__.get("__annotations__", {}).items() if not n.startswith("_")]
    own = [f for f in d["fields"] if f[0] in dict(ann)]
    if ann != own:
        # the class body's annotations are the declaration the dataclass fields were made from: they must keep agreeing
        d["annotations_disagree"] = {"annotations": ann, "fields": own}
    name = cls.__name__
    if hasattr(cls, "_selected_by"):
        d["kind"] = "union"
        raw, effective, fallback = _selected_by(cls)
        d["selected_by"] = raw
        d["selection"] = effective
        d["fallback"] = fallback
    elif name.startswith("TPM2B"):
        d["kind"] = "tpm2b"
    else:
        d["kind"] = "struct"
    if hasattr(cls, "_selectors"):
        d["selectors"] = dict(cls._selectors)
    if hasattr(cls, "_list_size"):
        d["list_size"] = {k: int(v) for k, v in cls._list_size.items()}
    return d


def extract():
    src = _src()
    if src not in sys.path:
        sys.path.insert(0, src)
    from tpmstream.spec.commands import Command, Response, command_response_types
    from tpmstream.spec.commands.params_common import TPM2B_ENCRYPTED_PARAM, TPMS_PARAMS
    from tpmstream.spec.structures import structures_types
    from tpmstream.spec.structures.constants import TPM_CC

    out = {"primitives": {}, "structs": {}, "areas": {}, "commands": {}, "tables": {}, "framing": {}}
    for t in structures_types:
        if hasattr(t, "_int_size"):
            out["primitives"][t.__name__] = _primitive(t)
        elif is_dataclass(t):
            out["structs"][t.__name__] = _struct(t)
        else:
            out.setdefault("other_types", {})[t.__name__] = repr(t)
    out["structs"]["TPM2B_ENCRYPTED_PARAM"] = _struct(TPM2B_ENCRYPTED_PARAM)

    for t in command_response_types:
        if t.__name__.startswith("TPMS_"):
            d = _struct(t)
            d["is_params"] = bool(issubclass(t, TPMS_PARAMS))
            out["areas"][t.__name__] = d

    tables = {
        "command_handles": Command._type_maps["handles"],
        "command_params": Command._type_maps["parameters"],
        "response_handles": Response._type_maps["handles"],
        "response_params": Response._type_maps["parameters"],
    }
    for tname, table in tables.items():
        out["tables"][tname] = sorted([_as_int(k), v.__name__] for k, v in table.items())
    for m in _enum_members(TPM_CC):
        if "value" not in m:
            continue
        code = m["value"]
        entry = {"code": code}
        for tname, table in tables.items():
            try:
                entry[tname] = table[TPM_CC(code)].__name__
            except KeyError:
                entry[tname] = None
        out["commands"][m["name"]] = entry

    for t in (Command, Response):
        d = {"fields": [[f.name, type_expr(f.type)] for f in fields(t)]}
        if hasattr(t, "_selectors"):
            d["selectors"] = dict(t._selectors)
        out["framing"][t.__name__] = d
    return out


def main():
    data = extract()
    if "--pin" in sys.argv:
        path = os.path.join(os.path.dirname(os.path.dirname(os.path.abspath(__file__))), "layout", "snapshot.json")
        with open(path, "w") as f:
            json.dump(data, f, indent=1, sort_keys=True)
        print("pinned", path)
    counts = {k: len(v) for k, v in data.items()}
    print(json.dumps(counts))


if __name__ == "__main__":
    main()
