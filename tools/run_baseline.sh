#!/bin/sh
# Runs the repository's own (pinned) test suite on /repo (or $1) in parallel; prints the summary line.
cd "${1:-/repo}" && /venv/bin/python -m pytest -q -p no:cacheprovider --timeout=900 --continue-on-collection-errors -n 16 2>&1 | tail -5
