#!/usr/bin/env python
"""Import confirmed seeded changes from a verification log (tools/verify_seed.sh output) into /verif/seeded/<id>/.

usage: tools/import_seeds.py <seed_out dir> <verify log> [<verify log> ...]
Keeps a change only if: patch applied, repository suite still 14051 passed, demo exits 1 with and 0 without the change."""
import json
import os
import re
import shutil
import sys

VERIF = os.path.dirname(os.path.dirname(os.path.abspath(__file__)))


def parse(log):
    blocks = {}
    cur = None
    for line in open(log, errors="replace"):
        line = line.rstrip("\n")
        m = re.match(r"^#### (C\d+)/([AB])$", line)
        if m:
            cur = f"{m.group(1)}-{m.group(2)}"
            blocks[cur] = {"property": m.group(1), "variant": m.group(2), "checks": {}, "lines": []}
            continue
        if cur is None or line.startswith(("WARNING", "Ignoring", "Unable", "  path", "  reason")):
            continue
        b = blocks[cur]
        b["lines"].append(line)
        if line.startswith("suite:"):
            b["suite"] = line[len("suite: ") :]
        elif line.startswith("demo with change:"):
            b["demo_with"] = int(re.search(r"exit=(\d+)", line).group(1))
        elif line.startswith("demo without change:"):
            b["demo_without"] = int(re.search(r"exit=(\d+)", line).group(1))
        elif line.startswith("check "):
            m = re.match(r"check (C\d+): exit=(\d+)\s*(.*)", line)
            b["checks"][m.group(1)] = {"exit": int(m.group(2)), "signatures": [s.strip() for s in re.findall(r"signature: ([^;]+);", m.group(3))]}
        elif line.startswith("PATCH-DOES-NOT-APPLY"):
            b["patch_failed"] = True
    return blocks


def main():
    src = sys.argv[1]
    args = sys.argv[2:]
    tag = ""
    if args and args[0] == "--tag":
        tag = args[1]
        args = args[2:]
    for log in args:
        for name, b in parse(log).items():
            if tag:
                name = f"{b['property']}-{tag}{b['variant']}"
            d = os.path.join(src, b["property"], b["variant"])
            ok = (
                not b.get("patch_failed")
                and "14051 passed" in b.get("suite", "")
                and "failed" not in b.get("suite", "")
                and b.get("demo_with") == 1
                and b.get("demo_without") == 0
            )
            if not ok:
                print(f"{name}: NOT KEPT ({b.get('suite')}, demo with={b.get('demo_with')} without={b.get('demo_without')})")
                continue
            out = os.path.join(VERIF, "seeded", name)
            os.makedirs(out, exist_ok=True)
            for f in ("patch.diff", "demo.py", "notes.md"):
                if os.path.exists(os.path.join(d, f)):
                    shutil.copy(os.path.join(d, f), os.path.join(out, f))
            meta_path = os.path.join(out, "meta.json")
            meta = json.load(open(meta_path)) if os.path.exists(meta_path) else {}
            notes = open(os.path.join(d, "notes.md")).read() if os.path.exists(os.path.join(d, "notes.md")) else ""
            meta.update(
                {
                    "property": b["property"],
                    "origin": "written by an independent sub-agent that was given only the property's text and its own scratch git worktree of /repo (nothing from /verif)"
                    + ("; second round: the agent was additionally told that generated-input checks had caught all ordinary slips and was asked for changes that only manifest for narrow input classes, rare shapes, specific call sequences" if tag else ""),
                    "needs_to_manifest": notes.strip()[:1500],
                    "confirmed": {
                        "how": "tools/verify_seed.sh: patch applied to a scratch copy of /repo (git apply), repository suite run there, demo.py run with and without the change",
                        "suite_with_change": b["suite"],
                        "demo_exit_with_change": b["demo_with"],
                        "demo_exit_without_change": b["demo_without"],
                    },
                    "checks": sorted(set(meta.get("checks", [])) | set(b["checks"])),
                }
            )
            res = meta.get("check_results", {})
            for c, r in b["checks"].items():
                res[c] = {"quick_exit": r["exit"], "signatures": r["signatures"]}
            meta["check_results"] = res
            meta["caught_by"] = sorted(c for c, r in res.items() if r["quick_exit"] == 1)
            json.dump(meta, open(meta_path, "w"), indent=1)
            print(f"{name}: kept, caught by {meta['caught_by']}" + ("" if meta["caught_by"] else "   <<<<<< MISSED"))


if __name__ == "__main__":
    main()
