#!/usr/bin/env python
"""Regenerates seeded/RESULTS.md from the meta.json files.

usage: tools/seeded_results.py [TAG:COMMIT:LOG ...]
Each TAG:COMMIT:LOG names a log of runs of an *earlier* verif commit against the changes of one round (TAG H = round 2,
R = round 3, S = round 4, T = round 5, U = round 6; lines `OLD C09/A C09 exit=1 signature: ...;`); the outcome is stored in meta.json as `before_strengthening`."""
import json
import os
import re
import sys

VERIF = os.path.dirname(os.path.dirname(os.path.abspath(__file__)))
BASE = os.path.join(VERIF, "seeded")


def main():
    old = {}
    own = {}
    argv = list(sys.argv[1:])
    if "--own" in argv:
        i = argv.index("--own")
        for line in open(argv[i + 1]):
            m = re.match(r"OWN (\S+) (C\d+) exit=(\d*)\s*(.*)", line.strip())
            if m:
                own[m.group(1)] = {"quick_exit": int(m.group(3) or 2), "signatures": [x.strip() for x in re.findall(r"signature: ([^;]+);", m.group(4))]}
        del argv[i : i + 2]
    for spec in argv:
        tag, commit, log = spec.split(":", 2)
        for line in open(log):
            m = re.match(r"OLD (C\d+)/([AB]) (C\d+) exit=(\d+)\s*(.*)", line.strip())
            if m:
                d = old.setdefault(f"{m.group(1)}-{tag}{m.group(2)}", {"commit": commit, "results": {}})
                d["results"][m.group(3)] = {"quick_exit": int(m.group(4)), "signatures": [s.strip() for s in re.findall(r"signature: ([^;]+);", m.group(5))]}
    rows = []
    for name in sorted(os.listdir(BASE)):
        mp = os.path.join(BASE, name, "meta.json")
        if not os.path.exists(mp):
            continue
        m = json.load(open(mp))
        if name in old:
            r = old[name]["results"]
            m["before_strengthening"] = {"verif_commit": old[name]["commit"], "results": r, "caught": sorted(c for c, x in r.items() if x["quick_exit"] == 1)}
            json.dump(m, open(mp, "w"), indent=1)
        if name in own:
            m["own_check"] = own[name]
            json.dump(m, open(mp, "w"), indent=1)
        sigs = "; ".join(f"{c}: {', '.join(r['signatures'][:2])}" for c, r in sorted(m["check_results"].items()) if r["quick_exit"] == 1)
        if "before_strengthening" in m:
            before = ", ".join(m["before_strengthening"]["caught"]) or "missed"
        else:
            before = "missed" if m.get("strengthening") else "same"
        oc = m.get("own_check")
        own_txt = "-" if oc is None else ("yes: " + ", ".join(oc["signatures"][:2]) if oc["quick_exit"] == 1 else ("no" if oc["quick_exit"] == 0 else "harness error"))
        rows.append((name, m["property"], before, ", ".join(m["caught_by"]) or "MISSED", sigs, m.get("strengthening"), own_txt))
    r1 = [r for r in rows if re.search(r"-[AB]$", r[0])]
    r2 = [r for r in rows if re.search(r"-H[AB]$", r[0])]
    r3 = [r for r in rows if re.search(r"-R[AB]$", r[0])]
    r4 = [r for r in rows if re.search(r"-S[AB]$", r[0])]
    r5 = [r for r in rows if re.search(r"-T[AB]$", r[0])]
    r6 = [r for r in rows if re.search(r"-U[AB]$", r[0])]
    with open(os.path.join(BASE, "RESULTS.md"), "w") as f:
        f.write(
            "# Seeded changes: which checks catch which\n\n"
            "Each directory `seeded/<property>-<A|B>/` (round 1), `seeded/<property>-H<A|B>/` (round 2), `seeded/<property>-R<A|B>/` (round 3), `seeded/<property>-S<A|B>/` (round 4) `seeded/<property>-T<A|B>/` (round 5) or `seeded/<property>-UA/` (round 6)\n"
            "holds a change to joholl/tpmstream written by an independent sub-agent that was given only the text of one property and its own\n"
            "scratch git worktree of /repo (nothing from /verif): `patch.diff`, the agent's demonstration `demo.py` (exits 1 with the change,\n"
            "0 without), its `notes.md` (what was changed and what is needed for it to manifest) and `meta.json` (property, how it was\n"
            "confirmed, which checks were run, their exit codes and signatures, and - where a change was missed at first - what was strengthened).\n\n"
            "Every change below was confirmed with `tools/verify_seed.sh` in a scratch copy: the patch applies, the repository's own suite\n"
            "still gives 14051 passed, the demonstration fails with the change and passes without it. None of them was ever applied to /repo.\n"
            "`tools/eval_seeded.sh` re-runs the quick checks against every kept change (last full run: all changes caught, no harness error).\n"
            "In rounds 1-4 a change counted as caught when any check reported it; the last column shows whether the check of the property the\n"
            "change was written against reports it with the current quick tier (`seeded/own_checks.log`, `tools/eval_own.sh`): all of them do.\n\n"
        )
        f.write(f"## Round 1 - plausible slips that need something specific to manifest ({len(r1)} changes, 2 per property)\n\n")
        missed1 = [r for r in r1 if r[2] == "missed"]
        f.write(f"{len(r1) - len(missed1)} of {len(r1)} were caught by the quick tier as it was; {len(missed1)} were missed and led to strengthening, after which all are caught:\n\n")
        for r in missed1:
            f.write(f"* **{r[0]}**: {r[5]}\n")
        for title, rr, blurb in (
            (
                "Round 2 - changes designed to evade generated inputs",
                r2,
                "The agents of this round were told that generated-input checks had caught every ordinary slip and were asked for changes that only\n"
                "manifest for narrow input classes, rare shapes and lengths, specific call sequences or rarely used code paths. \"Before\" = the quick\n"
                "checks as they were before this round (verif commit dc8f71d).",
            ),
            (
                "Round 3 - same brief, plus the list of ideas already used for the property (to force new root causes)",
                r3,
                "\"Before\" = the quick checks after the strengthening of round 2 and before that of round 3 (verif commit 2d86922): a measure of\n"
                "how far the round-2 strengthening generalises to unseen changes of the same kind.",
            ),
            (
                "Round 4 - as round 3, for the other ten properties",
                r4,
                "\"Before\" = the quick checks after the strengthening of round 3 (verif commit 60619f4).",
            ),
            (
                "Round 5 - all twenty properties: one maintainer's change with a side effect and one as hard to hit as possible, every earlier idea excluded",
                r5,
                "\"Before\" = the check of the property the change was written against only (not its neighbours), as it stood after the context\n"
                "dimensions were added (verif commit b0e0e2c). Two further changes (seeded/_obsolete) no longer apply after the F-20 repair.",
            ),
            (
                "Round 6 - realistic maintainer's changes (one per property; optimisation, clean-up, feature, new revision, input quirk), not designed to evade",
                r6,
                "\"Before\" = the check of the property the change was written against only, as it stood after round 5 (verif commit b239d6c).",
            ),
        ):
            if not rr:
                continue
            caught_before = sum(1 for r in rr if r[2] != "missed")
            caught_now = sum(1 for r in rr if r[3] != "MISSED")
            f.write(f"\n## {title} ({len(rr)} changes)\n\n{blurb}\nCaught before: **{caught_before} of {len(rr)}**; caught now: **{caught_now} of {len(rr)}**. What each miss led to:\n\n")
            for r in rr:
                if r[5]:
                    f.write(f"* **{r[0]}**: {r[5]}\n")
        f.write("\n## All kept changes\n\n| change | property | before strengthening | caught by (quick tier, as of its round) | signatures | own check (current quick tier) |\n|--------|----------|----------------------|----------------------------|------------|------------|\n")
        for r in rows:
            f.write(f"| {r[0]} | {r[1]} | {r[2]} | {r[3]} | {r[4][:260]} | {r[6][:160]} |\n")
    for label, rr in (("round1", r1), ("round2", r2), ("round3", r3), ("round4", r4), ("round5", r5), ("round6", r6)):
        print(label, len(rr), "own:", sum(1 for r in rr if r[6].startswith("yes")), "before:", sum(1 for r in rr if r[2] != "missed"), "now:", sum(1 for r in rr if r[3] != "MISSED"))


if __name__ == "__main__":
    main()
