#!/usr/bin/env python
"""Regenerates seeded/RESULTS.md from the meta.json files (and, if given, a log of runs of the pre-strengthening checks).

usage: tools/seeded_results.py [<oldchecks.log>]"""
import json
import os
import re
import sys

VERIF = os.path.dirname(os.path.dirname(os.path.abspath(__file__)))
BASE = os.path.join(VERIF, "seeded")


def main():
    old = {}
    if len(sys.argv) > 1:
        for line in open(sys.argv[1]):
            m = re.match(r"OLD (C\d+)/([AB]) (C\d+) exit=(\d+)\s*(.*)", line.strip())
            if m:
                old.setdefault(f"{m.group(1)}-H{m.group(2)}", {})[m.group(3)] = {"quick_exit": int(m.group(4)), "signatures": [s.strip() for s in re.findall(r"signature: ([^;]+);", m.group(5))]}
    rows = []
    for name in sorted(os.listdir(BASE)):
        mp = os.path.join(BASE, name, "meta.json")
        if not os.path.exists(mp):
            continue
        m = json.load(open(mp))
        if name in old:
            m["before_strengthening"] = {"verif_commit": "dc8f71d", "results": old[name], "caught": sorted(c for c, r in old[name].items() if r["quick_exit"] == 1)}
            json.dump(m, open(mp, "w"), indent=1)
        sigs = "; ".join(f"{c}: {', '.join(r['signatures'][:2])}" for c, r in sorted(m["check_results"].items()) if r["quick_exit"] == 1)
        if "before_strengthening" in m:
            before = ", ".join(m["before_strengthening"]["caught"]) or "missed"
        else:
            before = "missed" if m.get("strengthening") else "same"
        rows.append((name, m["property"], before, ", ".join(m["caught_by"]) or "MISSED", sigs, m.get("strengthening")))
    r1 = [r for r in rows if "-H" not in r[0]]
    r2 = [r for r in rows if "-H" in r[0]]
    with open(os.path.join(BASE, "RESULTS.md"), "w") as f:
        f.write(
            "# Seeded changes: which checks catch which\n\n"
            "Each directory `seeded/<property>-<A|B>/` (first round) or `seeded/<property>-H<A|B>/` (second, \"hard\" round) holds a change to\n"
            "joholl/tpmstream written by an independent sub-agent that was given only the text of one property and its own scratch git\n"
            "worktree of /repo (nothing from /verif): `patch.diff`, the agent's demonstration `demo.py` (exits 1 with the change, 0 without),\n"
            "its `notes.md` (what was changed and what is needed for it to manifest) and `meta.json` (property, how it was confirmed, which\n"
            "checks were run, their exit codes and signatures, and - where a change was missed at first - what was strengthened).\n\n"
            "Every change below was confirmed with `tools/verify_seed.sh` in a scratch copy: the patch applies, the repository's own suite\n"
            "still gives 14051 passed, the demonstration fails with the change and passes without it. None of them was ever applied to /repo.\n"
            "`tools/eval_seeded.sh` re-runs the quick checks against every kept change.\n\n"
        )
        f.write(f"## Round 1 - plausible slips that need something specific to manifest ({len(r1)} changes, 2 per property)\n\n")
        missed1 = [r for r in r1 if r[2] == "missed"]
        f.write(f"{len(r1) - len(missed1)} of {len(r1)} were caught by the quick tier as it was; {len(missed1)} were missed and led to strengthening, after which all are caught:\n\n")
        for r in missed1:
            f.write(f"* **{r[0]}**: {r[5]}\n")
        f.write(
            f"\n## Round 2 - changes designed to evade generated inputs ({len(r2)} changes)\n\n"
            "The agents of this round were told that generated-input checks had caught every ordinary slip and were asked for changes that only\n"
            "manifest for narrow input classes, rare shapes and lengths, specific call sequences or rarely used code paths. Column \"before\" is the\n"
            f"result of the quick checks as they were before this round (verif commit dc8f71d): they caught {sum(1 for r in r2 if r[2] != 'missed')} of {len(r2)}. The misses exposed\n"
            "real gaps - almost all in the generators, one in an oracle (C05 did not compare the surplus bytes of a superfluous error) - and were\n"
            f"used to close them; now {sum(1 for r in r2 if r[3] != 'MISSED')} of {len(r2)} are caught by the quick tier (a change counts as caught when any check reports it).\n\n"
        )
        for r in r2:
            if r[5]:
                f.write(f"* **{r[0]}**: {r[5]}\n")
        f.write("\n## All kept changes\n\n| change | property | before strengthening | caught by now (quick tier) | signatures |\n|--------|----------|----------------------|----------------------------|------------|\n")
        for r in rows:
            f.write(f"| {r[0]} | {r[1]} | {r[2]} | {r[3]} | {r[4][:260]} |\n")
    print(len(r1), len(r2), sum(1 for r in r2 if r[2] != "missed"), sum(1 for r in r2 if r[3] != "MISSED"))


if __name__ == "__main__":
    main()
