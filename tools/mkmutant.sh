#!/bin/sh
# usage: tools/mkmutant.sh <name> <file-relative-to-repo> <python-expr-transform>
# Creates mutants/<name>.diff by applying a python string transform `s = f(s)` to one file in a scratch copy.
set -e
name="$1"; file="$2"; expr="$3"
scratch=$(mktemp -d /tmp/mkmut.XXXXXX)
trap 'rm -rf "$scratch"' EXIT
mkdir -p "$scratch/a/$(dirname "$file")" "$scratch/b/$(dirname "$file")"
cp "/repo/$file" "$scratch/a/$file"
/venv/bin/python - "$scratch/a/$file" "$scratch/b/$file" "$expr" <<'PY'
import sys
src, dst, expr = sys.argv[1:4]
s = open(src).read()
t = eval(expr, {"s": s})
assert t != s, "transform changed nothing"
open(dst, "w").write(t)
PY
( cd "$scratch" && diff -u "a/$file" "b/$file" > "/verif/mutants/$name.diff" || true )
echo "mutants/$name.diff: $(grep -c '^[+-][^+-]' /verif/mutants/$name.diff) changed lines"
