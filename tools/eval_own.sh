#!/bin/sh
# usage: tools/eval_own.sh [<id> ...]   (default: every directory under seeded/)
# For each kept seeded change run ONLY the check of the property it was written against (quick tier) on a patched scratch
# copy; prints `OWN <id> <property> exit=<code> signature: ...; ...` lines (input of tools/seeded_results.py --own <log>).
cd "$(dirname "$(readlink -f "$0")")/.."
ids="${*:-$(ls seeded | grep -v RESULTS | grep -v '\.log$' | grep -v '^_')}"
for id in $ids; do
  d="seeded/$id"
  [ -f "$d/patch.diff" ] || continue
  prop=$(/venv/bin/python -c "import json; print(json.load(open('$d/meta.json'))['property'])")
  out=$(tools/mutant.sh "$d/patch.diff" "$prop" 2>&1 | grep -v "^WARNING")
  code=$(echo "$out" | sed -n 's/^== [A-Z0-9]* exit=\([0-9]*\).*/\1/p' | head -1)
  sigs=$(echo "$out" | grep "signature:" | sed 's/^ *//' | tr '\n' ';')
  echo "OWN $id $prop exit=$code $sigs"
done
