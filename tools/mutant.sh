#!/bin/sh
# usage: tools/mutant.sh <patch.diff> <ID> [<ID> ...]
# Applies a patch to a scratch copy of /repo (never to /repo itself), runs the given quick checks against it
# (TPMSTREAM_SRC), prints their exit codes and removes the copy.  VERIF_MUT_BASELINE=1 also runs the repo's tests there.
set -u
patch=$(readlink -f "$1"); shift
scratch=$(mktemp -d /tmp/mut.XXXXXX)
trap 'rm -rf "$scratch"' EXIT
git -C /repo worktree list >/dev/null 2>&1
cp -r /repo/src /repo/test /repo/setup.cfg /repo/pyproject.toml "$scratch"/ 2>/dev/null
( cd "$scratch" && git init -q . && git apply --whitespace=nowarn "$patch" ) || { echo "patch does not apply"; exit 3; }
if [ "${VERIF_MUT_BASELINE:-0}" = "1" ]; then
  ( cd "$scratch" && PYTHONPATH="$scratch/src" /venv/bin/python -m pytest -q -p no:cacheprovider -n 16 --continue-on-collection-errors 2>&1 | tail -1 )
fi
cd "$(dirname "$(readlink -f "$0")")/.."
for id in "$@"; do
  TPMSTREAM_SRC="$scratch/src" VERIF_EVIDENCE_DIR="$scratch/evidence" /venv/bin/python -m tv.run "$id" --tier "${VERIF_TIER:-quick}" > "$scratch/out.$id" 2>&1
  code=$?
  echo "== $id exit=$code $(grep -c '^VIOLATION' "$scratch/out.$id") violation line(s)"
  grep -A1 'signature:' "$scratch/out.$id" | cut -c1-300 | head -8
  [ $code -eq 2 ] && tail -15 "$scratch/out.$id"
done
