#!/bin/sh
# usage: tools/verify_seed.sh <dir with patch.diff, demo.py> <checks...>
# Confirms a seeded change in a scratch copy: patch applies, repository suite still passes, demo fails with / passes without
# the change; then runs the given quick checks against the patched copy.  Prints one summary line per step.
set -u
d=$(readlink -f "$1"); shift
scratch=$(mktemp -d /tmp/seedv.XXXXXX)
trap 'rm -rf "$scratch"' EXIT
cp -r /repo/src /repo/test /repo/setup.cfg /repo/pyproject.toml "$scratch"/ 2>/dev/null
( cd "$scratch" && git init -q . && git apply --whitespace=nowarn "$d/patch.diff" ) || { echo "PATCH-DOES-NOT-APPLY"; exit 3; }
echo "suite: $( cd "$scratch" && PYTHONPATH="$scratch/src" /venv/bin/python -m pytest -q -p no:cacheprovider -n 16 --continue-on-collection-errors 2>&1 | tail -1 )"
( cd "$scratch" && PYTHONPATH="$scratch/src" timeout 600 /venv/bin/python "$d/demo.py" >"$scratch/demo_with.out" 2>&1 ); echo "demo with change: exit=$? ($(tail -1 "$scratch/demo_with.out" | cut -c1-120))"
( cd /repo && PYTHONPATH=/repo/src timeout 600 /venv/bin/python "$d/demo.py" >"$scratch/demo_without.out" 2>&1 ); echo "demo without change: exit=$? ($(tail -1 "$scratch/demo_without.out" | cut -c1-120))"
cd "$(dirname "$(readlink -f "$0")")/.."
for id in "$@"; do
  TPMSTREAM_SRC="$scratch/src" VERIF_EVIDENCE_DIR="$scratch/evidence" VERIF_REPLAY_DIR="$scratch/replays" /venv/bin/python -m tv.run "$id" --tier "${VERIF_TIER:-quick}" > "$scratch/out.$id" 2>&1
  code=$?
  echo "check $id: exit=$code $(grep 'signature:' "$scratch/out.$id" | head -3 | tr '\n' ';' | cut -c1-240)"
  [ $code -eq 2 ] && tail -8 "$scratch/out.$id"
done
