#!/bin/sh
# usage: tools/eval_seeded.sh [<id> ...]   (default: every directory under seeded/)
# For each kept seeded change: apply its patch to a scratch copy, run its demonstration there (must fail), run the quick
# checks named in meta.json ("checks", default: the property's own check) and print which ones report a violation.
cd "$(dirname "$0")/.."
ids="${*:-$(ls seeded | grep -v RESULTS | grep -v "\.log$" | grep -v "^_")}"
for id in $ids; do
  d="seeded/$id"
  [ -f "$d/patch.diff" ] || continue
  checks=$(/venv/bin/python -c "import json,sys; m=json.load(open('$d/meta.json')); print(' '.join(m.get('checks') or [m['property']]))")
  echo "### $id (property $(/venv/bin/python -c "import json; print(json.load(open('$d/meta.json'))['property'])")) checks: $checks"
  tools/mutant.sh "$d/patch.diff" $checks 2>&1 | grep -E "^== |signature" | cut -c1-200
done
