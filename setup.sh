#!/bin/sh
# Offline setup: make sure /venv has hypothesis (and, for the fuzzing tiers, atheris in /verif/.deps).
set -e
cd "$(dirname "$0")"
WH=/opt/veriftools/wheels
if ! /venv/bin/python -c "import hypothesis" 2>/dev/null; then
  /venv/bin/pip install --no-index --find-links "$WH" hypothesis >/dev/null
fi
if ! PYTHONPATH=.deps /venv/bin/python -c "import atheris" 2>/dev/null; then
  /venv/bin/pip install --no-index --find-links "$WH" --target .deps atheris >/dev/null 2>&1 || echo "setup: atheris not installable; fuzz tiers fall back to hypothesis only"
fi
/venv/bin/python -c "import hypothesis, sys; sys.path.insert(0, '/repo/src'); import tpmstream; print('setup ok: hypothesis', hypothesis.__version__)"
