"""Read-only access to the pinned wire layout (layout/snapshot.json).

Nothing in here imports tpmstream: the reference model interprets this data only.
Synthetic types (harness-defined) can be added through `Layout.extended`.
"""
import json
import os
import re

HERE = os.path.dirname(os.path.abspath(__file__))
SNAPSHOT_PATH = os.path.join(os.path.dirname(HERE), "layout", "snapshot.json")

_LIST_RE = re.compile(r"^list\[(.+)\]$")

SIZE_FIELD_NAMES = {"commandSize", "responseSize", "authSize", "parameterSize"}


def list_elem(texpr):
    m = _LIST_RE.match(texpr)
    return m.group(1) if m else None


class Layout:
    def __init__(self, snap):
        self.snap = snap
        self.prims = snap["primitives"]
        self.structs = dict(snap["structs"])
        self.structs.update(snap["areas"])
        self.commands = snap["commands"]  # name -> {code, command_handles, ...}
        self.cc_by_code = {e["code"]: (n, e) for n, e in self.commands.items()}
        self.framing = snap["framing"]
        self._allowed_cache = {}
        self._far = {}

    @classmethod
    def load(cls, path=SNAPSHOT_PATH):
        with open(path) as f:
            return cls(json.load(f))

    def extended(self, prims=None, structs=None):
        """A copy of this layout with synthetic types added."""
        snap = dict(self.snap)
        snap["primitives"] = {**self.snap["primitives"], **(prims or {})}
        snap["structs"] = {**self.snap["structs"], **(structs or {})}
        return Layout(snap)

    # -- type queries ------------------------------------------------------
    def is_prim(self, name):
        return name in self.prims

    def prim(self, name):
        return self.prims[name]

    def struct(self, name):
        return self.structs[name]

    def kind(self, texpr):
        if texpr == "None":
            return "none"
        if list_elem(texpr):
            return "list"
        if texpr in self.prims:
            return "prim"
        if texpr in ("Command", "Response", "CommandResponseStream"):
            return texpr
        return self.structs[texpr]["kind"]

    def allowed(self, name):
        return self.prims[name]["allowed"]

    def contains(self, name, v):
        for lo, hi in self.prims[name]["allowed"]:
            if lo <= v <= hi:
                return True
        return False

    def width(self, name):
        return self.prims[name]["width"]

    def signed(self, name):
        return self.prims[name]["signed"]

    def limits(self, name):
        p = self.prims[name]
        bits = 8 * p["width"]
        return (-(1 << (bits - 1)), (1 << (bits - 1)) - 1) if p["signed"] else (0, (1 << bits) - 1)

    def is_constrained(self, name):
        lo, hi = self.limits(name)
        return self.prims[name]["allowed"] != [[lo, hi]]

    def outside_values(self, name):
        """Representative values of the width that are NOT allowed (interval ends +-1, 0, limits)."""
        lo, hi = self.limits(name)
        cands = {lo, hi, 0, 1, lo + 1, hi - 1}
        for a, b in self.prims[name]["allowed"]:
            cands.update((a - 1, b + 1))
        return sorted(v for v in cands if lo <= v <= hi and not self.contains(name, v))

    def far_outside_values(self, name):
        """Structured values of the width that are NOT allowed and not next to an allowed interval: single bits, a high
        bit on top of a member (vendor / reserved bits), members of the base types that the type leaves out and their
        neighbours (e.g. the TPM 1.2 tags next to TPM_ST.RSP_COMMAND for a command tag)."""
        if name in self._far:
            return self._far[name]
        lo, hi = self.limits(name)
        bits = 8 * self.width(name)
        p = self.prims[name]
        members = sorted({v for a, b in p["allowed"] for v in (a, b)})
        cands = set()
        for k in range(bits):
            cands.add(1 << k)
            cands.add((1 << k) - 1)
            for m in members[:2] + members[-2:]:
                cands.add(m | (1 << k))
                cands.add(m ^ (1 << k))
        for base in p.get("bases", []):
            bp = self.prims.get(base)
            if not bp:
                continue
            for a, b in bp["allowed"]:
                if b - a <= 4:
                    cands.update(range(a - 1, b + 2))
                else:
                    cands.update((a - 1, a, a + 1, b - 1, b, b + 1))
            for m in bp.get("members", []):
                if "value" in m:
                    cands.update((m["value"] - 1, m["value"], m["value"] + 1))
        near = set(self.outside_values(name))
        self._far[name] = sorted(v for v in cands if lo <= v <= hi and not self.contains(name, v) and v not in near)
        return self._far[name]

    def select(self, union_name, selector):
        """Member name selected in a union by an integer selector (None if no member and no fallback)."""
        u = self.structs[union_name]
        for k, m in u["selection"]:
            if k == selector:
                return m
        return u["fallback"]

    def field_type(self, sname, fname):
        for n, t in self.structs[sname]["fields"]:
            if n == fname:
                return t
        raise KeyError((sname, fname))

    def non_union_types(self):
        """All top-level decodable structure type names (primitives, structs, TPM2Bs): 231 in the pinned layout."""
        out = sorted(self.snap["primitives"])
        out += sorted(n for n, s in self.snap["structs"].items() if s["kind"] != "union" and n != "TPM2B_ENCRYPTED_PARAM")
        return out

    def area_names(self, cc_name, which):
        return self.commands[cc_name][which]

    def first_param_is_tpm2b(self, area_name):
        f = self.structs[area_name]["fields"]
        return bool(f) and f[0][1].startswith("TPM2B")
