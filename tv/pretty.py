"""Parser for rows of the pretty printer, splitting on the colour codes the printer itself emits."""
import re

ANSI = re.compile(r"(\x1b\[[0-9;]*m)")
BLUE, BLACK, GREEN, YELLOW, RED, RESET = "\x1b[34m", "\x1b[30m", "\x1b[92m", "\x1b[33m", "\x1b[31m", "\x1b[0m"


class Row:
    __slots__ = ("kind", "type", "depth", "name", "hex", "value", "raw")

    def __repr__(self):
        return f"Row({self.kind}, {self.type!r}, depth={self.depth}, {self.name!r}, hex={self.hex!r}, value={self.value!r})"


def strip_ansi(s):
    return ANSI.sub("", s)


def parse_row(row):
    """Returns a Row: kind 'field' (type, depth, name, hex, value) or 'info' (value = text) or None if unparsable."""
    parts = ANSI.split(row)
    segs = []  # (colour, text)
    colour = None
    for p in parts:
        if ANSI.fullmatch(p):
            colour = p
        elif p != "":
            segs.append((colour, p))
    r = Row()
    r.raw = row
    if segs and segs[0][0] == RED:
        r.kind, r.type, r.depth, r.name, r.hex = "info", None, None, None, ""
        r.value = "".join(t for c, t in segs if c == RED)
        return r
    # a field row: blue type, black indent, green name, yellow hex, yellow value
    r.kind = "field"
    r.type = "".join(t for c, t in segs if c == BLUE)
    indent = "".join(t for c, t in segs if c == BLACK)
    if indent.replace("|   ", "") != "":
        return None
    r.depth = len(indent) // 4
    names = [t for c, t in segs if c == GREEN]
    if len(names) != 1 or not names[0].startswith("."):
        return None
    r.name = names[0][1:]
    yellows = [t for c, t in segs if c == YELLOW]
    if not yellows:
        return None
    r.hex = yellows[0].strip()
    if yellows[0] != r.hex.ljust(20) and len(yellows[0]) < 20:
        return None
    r.value = yellows[1] if len(yellows) > 1 else ""
    if len(yellows) > 2:
        return None
    return r
