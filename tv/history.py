"""Process histories: things a process may have done with the library before (or in the middle of) the case under test.

The properties quantify over inputs; they hold "for every history" only if nothing the library did earlier leaks into a later
decode / print / conversion.  A check that opts in (HISTORY = True) runs, in every second shard, one of the preludes below
before its first case; `churn()` can be called in the middle of a case (between the two halves of a comparison).
Everything here is legitimate use of the public API; an exception the library raises during a prelude is swallowed (the
cases that follow are judged by the check's own oracle).  Preludes are deterministic."""
from . import observe as O

SWALLOWED = {}  # exception class name -> count (diagnostics; documented errors of cut inputs are expected here)


def _swallow(exc):
    SWALLOWED[type(exc).__name__] = SWALLOWED.get(type(exc).__name__, 0) + 1


PRELUDES = [
    None,
    "typed-from-typed",
    None,
    "rc-print-format0-first",
    None,
    "interrupted-print",
    None,
    "handle-volume",
    None,
    "abandoned-decodes",
    None,
    "rc-print-format1-first",
    None,
    "typed-from-typed",
    None,
    "all",
]
ALL = ["typed-from-typed", "rc-print-format1-first", "interrupted-print", "abandoned-decodes", "handle-volume"]


def prelude_for(shard):
    return PRELUDES[shard % len(PRELUDES)]


def run(name):
    for n in ALL if name == "all" else [name]:
        try:
            _RUN[n]()
        except Exception as exc:  # noqa: BLE001 - context only; the check's cases are what is judged
            _swallow(exc)


# ------------------------------------------------------------------------------------------------ preludes
def typed_from_typed():
    """Typed values built from typed constants of other types (README style: UINT32(12), TPMI_ST_COMMAND_TAG(TPM_ST.NO_SESSIONS))."""
    from .checks.common import layout

    L = layout()
    sources = [n for n, p in L.prims.items() if p.get("members") and any("value" in m for m in p["members"])]
    targets = [n for n, p in L.prims.items() if not p["signed"]]
    for tname in targets:
        T = O.lib_type(tname)
        p = L.prim(tname)
        lo, hi = L.limits(tname)
        slow = any(it.get("kind") == "range" for it in p["valid_items"])
        for src in sources:
            S = O.lib_type(src)
            members = [m for m in L.prim(src)["members"] if "value" in m and lo <= m["value"] <= hi and (m["value"] <= 0xFFFF or not slow)]
            for m in members[:: max(1, len(members) // 4)]:
                c = getattr(S, m["name"], None)
                if c is None:
                    continue
                try:
                    x = T(c)
                    int(x), x.to_bytes(), str(x), x == m["value"], hash(x)
                except Exception as exc:  # noqa: BLE001
                    _swallow(exc)


def _failed_response(rc):
    return b"\x80\x01\x00\x00\x00\x0a" + rc.to_bytes(4, "big")


def _print(data, tname="Response", cc=0x17B, strict=False, printer="pretty"):
    from tpmstream.io.binary import Binary
    from tpmstream.io.events import Events
    from tpmstream.io.pretty import Pretty
    from tpmstream.spec.structures.constants import TPM_CC

    kw = dict(tpm_type=O.lib_type(tname), buffer=data, abort_on_error=strict)
    if tname == "Response":
        kw["command_code"] = TPM_CC(cc)
    un = Pretty if printer == "pretty" else Events
    return un.unmarshal(Binary.marshal(**kw))


F0 = [0x101, 0x100, 0x12F, 0x01E, 0x901, 0x923]
F1 = [0x1C4, 0x98E, 0x922, 0x0C1, 0xFCB, 0x084]


def rc_print(first):
    order = (F0 + F1) if first == 0 else (F1 + F0)
    for rc in order:
        for printer in ("pretty", "events"):
            for _ in _print(_failed_response(rc), printer=printer):
                pass
    for word_type, data in (("TPMA_OBJECT", b"\x00\x03\x00\x72"), ("TPMA_SESSION", b"\x61"), ("TPMA_NV", b"\x62\x04\x00\x06"), ("TPMA_LOCALITY", b"\x21")):
        for _ in _print(data, tname=word_type):
            pass


def interrupted_print():
    """Printers fed lazily by a strict decode that raises in the middle of a list / closed by their consumer half-way."""
    cut_lists = [
        ("TPML_CC", b"\x00\x00\x00\x03\x00\x00\x01\x7b\x00\x00"),
        ("TPML_HANDLE", b"\x00\x00\x00\x02\x80\x00\x00\x00\x80"),
        ("TPML_ALG", b"\x00\x00\x00\x04\x00\x0b\x00"),
        ("TPML_CCA", b"\x00\x00\x00\x02\x00\x40\x01\x7b\x00"),
        ("TPML_PCR_SELECTION", b"\x00\x00\x00\x02\x00\x0b\x03\xff"),
        ("TPML_DIGEST", b"\x00\x00\x00\x02\x00\x02\xaa\xbb\x00\x05\x01"),
        ("TPML_TAGGED_TPM_PROPERTY", b"\x00\x00\x00\x02\x00\x00\x01\x00\x00\x00"),
        ("TPM2B_DIGEST", b"\x00\x08\x01\x02\x03"),
    ]
    for printer in ("pretty", "events"):
        for tname, data in cut_lists:
            try:
                for _ in _print(data, tname=tname, strict=True, printer=printer):
                    pass
            except Exception as exc:  # noqa: BLE001 - the documented depleted error
                _swallow(exc)
            g = _print(data + bytes(40), tname=tname, strict=False, printer=printer)
            try:
                for i, _ in enumerate(g):
                    if i == 3:
                        break
                g.close()
            except Exception as exc:  # noqa: BLE001
                _swallow(exc)


def handle_volume():
    """Many distinct members of the named handle ranges in one process (a long capture holds thousands of handles)."""
    T = O.lib_type("TPM_HANDLE")
    for base in (0x01000000, 0x80000000, 0x81000000):
        for i in range(17000):
            try:
                str(T(base + i * 3))
            except Exception as exc:  # noqa: BLE001
                _swallow(exc)


def abandoned_decodes():
    """Decodes that were started and never finished, or finished by an error, in strict and warn mode."""
    from tpmstream.io.binary import Binary
    from tpmstream.spec.structures.constants import TPM_CC

    startup = bytes.fromhex("80010000000c000001440000")
    getrandom_rsp = bytes.fromhex("8002000000330000000000000004aabbccdd0020") + bytes(range(32)) + bytes.fromhex("0020000000")
    create = bytes.fromhex("80020000003b000001318000000100000009400000090000010000000800040000000000000000001a0001000b000300720000000600800043001000000000000000000000000000")
    keep = []
    for data, tname, kw in (
        (startup, "Command", {}),
        (getrandom_rsp, "Response", {"command_code": TPM_CC(0x17B)}),
        (getrandom_rsp, "Response", {"command_code": TPM_CC(0x17B), "parameter_encryption": True}),
        (create, "Command", {}),
        (startup + getrandom_rsp, "CommandResponseStream", {}),
    ):
        for strict in (True, False):
            for stop_at in (1, 3, 7, 10**6):
                g = Binary.marshal(tpm_type=O.lib_type(tname), buffer=iter(data), abort_on_error=strict, **kw)
                try:
                    for i, _ in enumerate(g):
                        if i >= stop_at:
                            break
                except Exception as exc:  # noqa: BLE001
                    _swallow(exc)
                keep.append(g)  # stays suspended until the prelude returns
            for bad in (data[:-1], data + b"\x00", data[:2] + b"\xff\xff\xff\xff" + data[6:], b"\x80\x03" + data[2:]):
                try:
                    for _ in Binary.marshal(tpm_type=O.lib_type(tname), buffer=bad, abort_on_error=strict, **kw):
                        pass
                except Exception as exc:  # noqa: BLE001
                    _swallow(exc)
    for g in keep[::2]:
        g.close()


_RUN = {
    "typed-from-typed": typed_from_typed,
    "rc-print-format0-first": lambda: rc_print(0),
    "rc-print-format1-first": lambda: rc_print(1),
    "interrupted-print": interrupted_print,
    "handle-volume": handle_volume,
    "abandoned-decodes": abandoned_decodes,
}


# ------------------------------------------------------------------------------------------------ churn
_CHURN = None


def churn_messages():
    """One command with a decrypt session and one response with an encrypt session for every command code whose first
    parameter can be encrypted (all the synthesized parameter layouts the library can build)."""
    global _CHURN
    if _CHURN is None:
        from . import gen
        from .checks.common import layout

        L = layout()
        out = []
        for cc_name in sorted(L.commands):
            entry = L.commands[cc_name]
            if L.first_param_is_tpm2b(entry["command_params"]):
                toks, meta = gen.Builder(L, gen.FixedChooser(), big=False, rare=False).command(cc_name, 1, want_decrypt=True, want_encrypt=False)
                out.append(("Command", gen.Case("Command", toks, L, meta=meta).data, None, False))
            if L.first_param_is_tpm2b(entry["response_params"]):
                toks, meta = gen.Builder(L, gen.FixedChooser(), big=False, rare=False).response(cc_name, 1, enc=True, failed=False)
                out.append(("Response", gen.Case("Response", toks, L, cc=entry["code"], enc=True, meta=meta).data, entry["code"], True))
        _CHURN = out
    return _CHURN


def churn():
    """Decode every encryptable parameter layout once (what a long mixed capture does between two messages)."""
    from tpmstream.io.binary import Binary
    from tpmstream.spec.structures.constants import TPM_CC

    n = 0
    for tname, data, cc, enc in churn_messages():
        kw = {}
        if cc is not None:
            kw["command_code"] = TPM_CC(cc)
        if enc:
            kw["parameter_encryption"] = True
        try:
            for _ in Binary.marshal(tpm_type=O.lib_type(tname), buffer=data, abort_on_error=False, **kw):
                pass
            n += 1
        except Exception as exc:  # noqa: BLE001
            _swallow(exc)
    return n
