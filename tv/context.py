"""Delivery contexts: the same bytes handed to the decoder in the other ways a caller can hand them over.

The properties about decoding quantify over inputs, not over one entry point.  A check that opts in (`observe.mix(True)`)
has a deterministic share of its decodes (chosen by a checksum of the input, so that a replay makes the same choice and
strict/warn decodes of one input use the same delivery) go through

  hex          Hex.marshal over a hex rendering with letter-case and whitespace noise
  auto         Auto.marshal over hex text starting with a pair (or over the binary when its magic is unambiguous)
  swtpm        SWTPMLog.marshal over a log with one SWTPM_IO section per message (Ctrl sections in between)
  pcapng       Pcapng.marshal over a capture with one packet per message (only when every message's size field is its length)
  files        Binary.marshal over tpmstream.io.bytes_from_files of two or three in-memory files
  nested       Binary.marshal over a generator that is itself driven by another running tpmstream decode
  generator    Binary.marshal over a plain generator

instead of Binary.marshal over a bytes object.  C15 establishes (and keeps checking) that every container decodes like the bytes
it carries, so the oracle of the opting-in check applies unchanged.  Noise is a pure function of the input bytes."""
import io
import zlib

SHARE = 5  # one decode in SHARE goes through a non-default delivery
KINDS = ["hex", "auto", "swtpm", "pcapng", "files", "nested", "generator", "hex", "auto", "files"]


def _bits(data, salt):
    """Deterministic pseudo-random stream of small integers derived from the input."""
    state = zlib.crc32(bytes(data[:4096]), salt) or 1

    def nxt(n):
        nonlocal state
        state = (state * 1103515245 + 12345) & 0x7FFFFFFF
        return (state >> 8) % n

    return nxt


def choose(tname, data):
    if not isinstance(data, (bytes, bytearray)) or len(data) > 20000:
        return None
    h = zlib.crc32(bytes(data[:4096]) + str(tname).encode(), len(data))
    if h % SHARE:
        return None
    return KINDS[(h // SHARE) % len(KINDS)]


def hex_text(data, leading_ws=True):
    nxt = _bits(data, 1)
    ws = " \t\n\r\v\f"
    out = []
    if leading_ws and nxt(4) == 0:
        out.append(ws[nxt(len(ws))])
    for b in data:
        hi, lo = f"{b:02x}"
        if nxt(2):
            hi = hi.upper()
        if nxt(2):
            lo = lo.upper()
        out.append(hi)
        if nxt(7) == 0:
            out.append(ws[nxt(len(ws))])
        out.append(lo)
        if nxt(3) == 0:
            out.append(ws[nxt(len(ws))] * (1 + nxt(2)))
    return "".join(out)


def split_messages(data):
    """The messages of a byte string whose size fields tile it exactly (each >= 10 bytes), else None."""
    out, pos = [], 0
    while pos < len(data):
        if len(data) - pos < 10:
            return None
        size = int.from_bytes(data[pos + 2 : pos + 6], "big")
        if size < 10 or pos + size > len(data):
            return None
        out.append(bytes(data[pos : pos + size]))
        pos += size
    return out or None


def swtpm_text(data):
    nxt = _bits(data, 2)
    msgs = split_messages(data) or [bytes(data)]
    nl = "\r\n" if nxt(4) == 0 else "\n"
    parts = []
    if nxt(3) == 0:
        parts.append("Starting vTPM manufacturing as tss:tss" + nl)

    def payload(m):
        per = 1 + nxt(32)
        for i in range(0, len(m), per):
            parts.append((" " if nxt(2) else "") + " ".join(f"{b:02X}" for b in m[i : i + per]) + (" " if nxt(2) else "") + nl)

    for i, m in enumerate(msgs):
        if nxt(3) == 0:
            c = bytes([nxt(256) for _ in range(nxt(6))])
            parts.append(f"Ctrl {'Cmd' if nxt(2) else 'Rsp'}: length {len(c)}{nl}")
            payload(c)
        # the header's "length N" is commentary: what a section carries is its pairs (one header in five disagrees)
        shown = len(m) if nxt(5) else (max(0, len(m) - 1 - nxt(3)), len(m) + 1 + nxt(4), 0)[nxt(3)]
        parts.append(f"SWTPM_IO_{'Read' if i % 2 == 0 else 'Write'}: length {shown}{nl}")
        payload(m)
    if nxt(3) == 0:
        parts.append(f"Ctrl Cmd: length 4{nl}00 00 00 01{nl}")
    return "".join(parts)


def pcapng_bytes(data, ethernet=None):
    msgs = split_messages(data)
    if msgs is None:
        return None
    import dpkt

    from .containers import _frame

    nxt = _bits(data, 3)
    draw = bool(nxt(2))
    ethernet = draw if ethernet is None else ethernet
    f = io.BytesIO()
    w = dpkt.pcapng.Writer(f, linktype=dpkt.pcap.DLT_EN10MB if ethernet else (228, 101, dpkt.pcap.DLT_RAW)[nxt(3)])
    macs = (bytes(6), bytes(6)) if nxt(2) else (bytes(nxt(256) for _ in range(6)), bytes(nxt(256) for _ in range(6)))
    ts = 1.0
    for k, m in enumerate(msgs):
        if nxt(5) == 0:
            w.writepkt(_frame(bytes([nxt(256) for _ in range(nxt(10))]), ethernet, macs), ts=ts)  # a runt packet: skipped by the front end
            ts += 0.001
        w.writepkt(_frame(m, ethernet, macs if k % 2 == 0 else macs[::-1]), ts=ts)
        ts += 0.001
    return f.getvalue()


def files_source(data):
    from tpmstream.io import bytes_from_files

    nxt = _bits(data, 4)
    n = len(data)
    cuts = sorted({nxt(n + 1) for _ in range(1 + nxt(2))}) if n else [0]
    pieces, last = [], 0
    for c in cuts + [n]:
        pieces.append(bytes(data[last:c]))
        last = c
    import os
    import tempfile

    files = []
    for p in pieces:
        # real binary files, opened the way the CLI opens its arguments (argparse.FileType("rb")); unlinked at once
        fd, path = tempfile.mkstemp(prefix="tv-files-")
        with os.fdopen(fd, "wb") as f:
            f.write(p)
        files.append(open(path, "rb"))
        os.unlink(path)
    return _closing(bytes_from_files(files), files)


def _closing(gen, files):
    try:
        yield from gen
    finally:
        for f in files:
            f.close()


def nested_source(data, lib_type):
    """The bytes of `data`, produced lazily by another running tpmstream decode (the outer one reads a TPM2B_MAX_BUFFER
    around the data, and a UINT32-heavy structure in between every few bytes)."""
    from tpmstream.io.binary import Binary

    outer = len(data).to_bytes(2, "big") + bytes(data)
    byte_t = lib_type("BYTE")
    k = 0
    for ev in Binary.marshal(tpm_type=lib_type("TPM2B_MAX_BUFFER"), buffer=outer, abort_on_error=False):
        if getattr(ev, "value", ...) is not ... and getattr(ev, "type", None) is byte_t:
            k += 1
            if k % 3 == 0:
                # a third, complete decode in between: multi-byte primitives of another decoder
                for _ in Binary.marshal(tpm_type=lib_type("TPMS_CLOCK_INFO"), buffer=bytes([0x11, 0x22, 0x33, 0x44, 0x55, 0x66, 0x77, 0x88, 1, 2, 3, 4, 9, 8, 7, 6, 1]), abort_on_error=False):
                    pass
            yield int(ev.value)


def deliver(kind, tname, data, lib_type):
    """-> (marshal callable or None for Binary.marshal, buffer) or None when the delivery does not apply to this input."""
    if kind == "hex":
        from tpmstream.io.hex import Hex

        return Hex.marshal, hex_text(data).encode()
    if kind == "auto":
        from tpmstream.io.auto import Auto

        if len(data) >= 1 and zlib.crc32(bytes(data[:64])) % 2:
            text = hex_text(data, leading_ws=False)
            if text[0] in "0123456789abcdefABCDEF" and text[1] in "0123456789abcdefABCDEF":  # else Auto reads it as binary (D-5)
                return Auto.marshal, text.encode()
            return None
        d = bytes(data[:2])
        if len(d) == 2 and d != b"\x0a\x0d" and not all(chr(c) in "0123456789abcdefABCDEF" for c in d):
            return Auto.marshal, bytes(data)
        return None
    if kind == "swtpm":
        if len(data) < 1 or len(data) > 4000:
            return None
        from tpmstream.io.swtpm_log import SWTPMLog

        return SWTPMLog.marshal, swtpm_text(data).encode()
    if kind == "pcapng":
        if tname not in ("Command", "Response", "CommandResponseStream"):
            return None
        if tname != "CommandResponseStream" and (split_messages(data) is None or len(split_messages(data)) != 1):
            return None
        cap = pcapng_bytes(data)
        if cap is None:
            return None
        from tpmstream.io.pcapng import Pcapng

        return Pcapng.marshal, cap
    if kind == "files":
        return None, files_source(data)
    if kind == "nested":
        if len(data) > 2000:
            return None
        return None, nested_source(data, lib_type)
    if kind == "generator":
        return None, (b for b in bytes(data))
    return None
