"""Generators of well-formed wire encodings, built from the pinned layout only.

All random choices go through a `Chooser`; the hypothesis flavour draws every choice from hypothesis
strategies so that failing cases shrink and replay.  A generated `Case` carries the bytes, the event
tokens the builder *intends* (an independent second derivation of the expected events, used to
cross-check the reference decoder itself) and classification data for the evidence files.
"""
from hypothesis import strategies as st

from .layout import list_elem

ELLIPSIS = "..."
ENC = "#enc"
SESSIONS = 0x8002
NO_SESSIONS = 0x8001


class HypChooser:
    def __init__(self, draw):
        self.draw = draw

    def int(self, lo, hi):
        return self.draw(st.integers(lo, hi))

    def choice(self, seq):
        return self.draw(st.sampled_from(list(seq)))

    def bool(self):
        return self.draw(st.booleans())

    def chance(self, num, den):
        return self.draw(st.integers(0, den - 1)) < num

    def bytes(self, n):
        return self.draw(st.binary(min_size=n, max_size=n))


class Case:
    def __init__(self, tname, tokens, layout, cc=None, enc=False, meta=None):
        self.type = tname
        self.tokens = tokens  # [path, typename, value|"..."]
        self.cc = cc
        self.enc = enc
        self.meta = meta or {}
        chunks = []
        self.spans = {}
        pos = 0
        for i, (p, t, v) in enumerate(tokens):
            if v != ELLIPSIS:
                w = layout.width(t)
                chunks.append(int(v).to_bytes(w, "big", signed=layout.signed(t)))
                self.spans[i] = (pos, w)
                pos += w
        self.data = b"".join(chunks)

    @property
    def events(self):
        return [tuple(t) for t in self.tokens]

    def n_prims(self):
        return len(self.spans)

    def brief(self):
        d = {"type": self.type, "hex": self.data.hex() if len(self.data) <= 96 else self.data[:96].hex() + "…", "len": len(self.data)}
        if self.cc is not None:
            d["command_code"] = self.cc
        if self.enc:
            d["enc"] = True
        d.update({k: v for k, v in self.meta.items() if k in ("cc_name", "sessions", "failed", "messages")})
        return d


class Budget:
    """Keeps generated encodings small enough: the deeper, the smaller lists and buffers get."""

    def __init__(self, big=False, rare=True):
        self.big = big
        self.rare = rare

    # lengths around powers of two: where honest off-by-one and width mistakes live; drawn rarely because they are costly
    RARE_COUNTS = [9, 15, 16, 17, 31, 32, 33, 64, 65, 128]
    RARE_SIZES = [15, 16, 17, 31, 33, 63, 65, 127, 128, 129, 255, 256, 257, 511, 512, 513, 1023, 1024, 1025]

    def counts(self, depth):
        if depth <= 2:
            return [0, 0, 1, 1, 2, 3, 5, 8] + ([17, 33] if self.big else [])
        if depth <= 4:
            return [0, 1, 1, 2, 3]
        return [0, 1, 2]

    def buf_sizes(self, depth):
        base = [0, 0, 1, 2, 3, 8, 20, 32, 48, 64]
        if self.big and depth <= 3:
            base += [100, 255, 256, 300]
        return base

    def rare_count(self, ch, depth, elem_cost):
        """Occasionally (1 in 24 at shallow depth) a list length around a power of two; cheaper elements may get longer lists."""
        if not self.rare or depth > 2 or not ch.chance(1, 24):
            return None
        opts = [c for c in self.RARE_COUNTS if c * elem_cost <= 2048]
        return ch.choice(opts) if opts else None

    def rare_size(self, ch, depth):
        if not self.rare or depth > 3 or not ch.chance(1, 24):
            return None
        return ch.choice(self.RARE_SIZES)


class Builder:
    def __init__(self, layout, ch, big=False, rare=True):
        self.L = layout
        self.ch = ch
        self.budget = Budget(big, rare)
        self.unions = []
        self.lists = []
        self.flags = set()

    # -- primitive values ----------------------------------------------------
    def valid_value(self, tname):
        L, ch = self.L, self.ch
        p = L.prim(tname)
        allowed = p["allowed"]
        if p["kind"] in ("bitfield", "rc") or not L.is_constrained(tname):
            lo, hi = L.limits(tname)
            mode = ch.int(0, 5)
            if mode == 0:
                return ch.choice([lo, hi, 0, 1, hi - 1, lo + 1])
            if mode == 1 and lo == 0:
                return 1 << ch.int(0, 8 * p["width"] - 1)
            return ch.int(lo, hi)
        lo, hi = allowed[ch.int(0, len(allowed) - 1)] if len(allowed) > 1 else allowed[0]
        if lo == hi:
            return lo
        mode = ch.int(0, 3)
        if mode == 0:
            return lo
        if mode == 1:
            return hi
        return ch.int(lo, hi)

    def _elem_cost(self, elem):
        """Rough byte cost of one list element (to keep long lists affordable)."""
        L = self.L
        k = L.kind(elem)
        if k == "prim":
            return L.width(elem)
        return 24

    def small_count(self, tname, depth, elem=None):
        rare = self.budget.rare_count(self.ch, depth, self._elem_cost(elem) if elem else 8)
        if rare is not None and self.L.contains(tname, rare):
            self.flags.add("rare_list_length")
            return rare
        opts = [c for c in self.budget.counts(depth) if self.L.contains(tname, c)]
        return self.ch.choice(opts) if opts else self.valid_value(tname)

    # -- structures ------------------------------------------------------------
    def build(self, texpr, path, depth=0, selector=None, count=None):
        kind = self.L.kind(texpr)
        if kind == "prim":
            return [[path, texpr, self.valid_value(texpr)]]
        if kind == "tpm2b":
            return self.tpm2b(texpr, path, depth)
        if kind == "union":
            return self.union(texpr, path, depth, selector)
        if kind == "list":
            return self.array(texpr, path, depth, count)
        if kind == "struct":
            return self.struct(texpr, path, depth)
        raise AssertionError(texpr)

    def _selector_choices(self, sname, sel_field, sel_type):
        """Valid selector values that select a member (or fallback) in every union keyed by this field."""
        L = self.L
        s = L.struct(sname)
        unions = [L.field_type(sname, f) for f, sf in s.get("selectors", {}).items() if sf == sel_field]
        vals = []
        for lo, hi in L.allowed(sel_type):
            if hi - lo > 64:
                vals.extend([lo, hi, (lo + hi) // 2])
            else:
                vals.extend(range(lo, hi + 1))
        return [v for v in vals if all(L.select(u, v) is not None for u in unions)]

    def struct(self, tname, path, depth, overrides=None, enc=False):
        L, ch = self.L, self.ch
        s = L.struct(tname)
        flds = [list(f) for f in s["fields"]]
        if enc:
            flds[0][1] = "TPM2B_ENCRYPTED_PARAM"
        toks = [[path, tname + (ENC if enc else ""), ELLIPSIS]]
        selectors = s.get("selectors", {})
        sel_fields = set(selectors.values())
        values = {}
        last_scalar = None
        for i, (fname, ftype) in enumerate(flds):
            fpath = f"{path}.{fname}"
            if list_elem(ftype):
                toks += self.array(ftype, fpath, depth + 1, last_scalar)
                continue
            if fname in selectors:
                toks += self.union(ftype, fpath, depth + 1, values[selectors[fname]])
                last_scalar = None
                continue
            if L.kind(ftype) == "prim":
                nxt = flds[i + 1][1] if i + 1 < len(flds) else None
                if overrides and fname in overrides:
                    v = overrides[fname]
                elif fname in sel_fields:
                    v = ch.choice(self._selector_choices(tname, fname, ftype))
                elif nxt is not None and list_elem(nxt):
                    v = self.small_count(ftype, depth + 1, list_elem(nxt))
                else:
                    v = self.valid_value(ftype)
                toks.append([fpath, ftype, v])
                values[fname] = v
                last_scalar = v
            else:
                toks += self.build(ftype, fpath, depth + 1)
                last_scalar = None
        return toks

    def array(self, texpr, path, depth, count):
        elem = list_elem(texpr)
        toks = [[path, texpr, ELLIPSIS]]
        self.lists.append((texpr, count))
        if self.L.kind(elem) == "prim" and self.L.width(elem) == 1 and not self.L.is_constrained(elem) and count > 0:
            signed = self.L.signed(elem)
            for i, b in enumerate(self.ch.bytes(count)):
                toks.append([f"{path}[{i}]", elem, b - 256 if signed and b > 127 else b])
            return toks
        for i in range(count):
            toks += self.build(elem, f"{path}[{i}]", depth + 1)
        return toks

    def _nbytes(self, toks):
        return sum(self.L.width(t) for p, t, v in toks if v != ELLIPSIS)

    def tpm2b(self, tname, path, depth, force_nonempty=False):
        L, ch = self.L, self.ch
        (size_name, size_type), (buf_name, buf_type) = L.struct(tname)["fields"]
        bpath = f"{path}.{buf_name}"
        if list_elem(buf_type):
            n = self.budget.rare_size(ch, depth)
            if n is not None and L.contains(size_type, n):
                self.flags.add("rare_buffer_size")
            else:
                n = ch.choice(self.budget.buf_sizes(depth))
            inner = self.array(buf_type, bpath, depth + 1, n)
            self.flags.add("buffer0" if n == 0 else "buffer")
        elif not force_nonempty and ch.chance(3, 20):
            inner = [[bpath, buf_type, ELLIPSIS]]
            n = 0
            self.flags.add("empty_structured_tpm2b")
        else:
            inner = self.build(buf_type, bpath, depth + 1)
            n = self._nbytes(inner)
            if n == 0:
                # a structure without bytes cannot be told from the absent one: size 0 means absent
                inner = [[bpath, buf_type, ELLIPSIS]]
                self.flags.add("empty_structured_tpm2b")
            else:
                self.flags.add("structured_tpm2b")
        return [[path, tname, ELLIPSIS], [f"{path}.{size_name}", size_type, n]] + inner

    def union(self, tname, path, depth, selector):
        L = self.L
        toks = [[path, tname, ELLIPSIS]]
        member = L.select(tname, selector)
        assert member is not None, (tname, selector)
        self.unions.append((tname, member))
        mtype = L.field_type(tname, member)
        if mtype == "None":
            self.flags.add("null_arm")
            return toks
        mpath = f"{path}.{member}"
        if list_elem(mtype):
            return toks + self.array(mtype, mpath, depth + 1, L.struct(tname)["list_size"][member])
        return toks + self.build(mtype, mpath, depth + 1)

    # -- messages --------------------------------------------------------------
    def _session(self, elem_type, path, attr_set=0, attr_clear=0):
        toks = self.struct(elem_type, path, 2)
        for t in toks:
            if t[1] == "TPMA_SESSION":
                t[2] = (t[2] | attr_set) & ~attr_clear & 0xFF
        return toks

    def command(self, cc_name, n_sessions, want_decrypt=None, want_encrypt=None, path=""):
        """Returns tokens, meta.  want_decrypt: request parameter encryption for the command if possible."""
        L, ch = self.L, self.ch
        entry = L.commands[cc_name]
        fr = {n: t for n, t in L.framing["Command"]["fields"]}
        can_dec = L.first_param_is_tpm2b(entry["command_params"])
        can_enc = L.first_param_is_tpm2b(entry["response_params"])
        tag = SESSIONS if n_sessions is not None else NO_SESSIONS
        head = [[path, "Command", ELLIPSIS], [f"{path}.tag", fr["tag"], tag], [f"{path}.commandSize", fr["commandSize"], 0], [f"{path}.commandCode", fr["commandCode"], entry["code"]]]
        body = self.struct(entry["command_handles"], f"{path}.handles", 1)
        dec = enc = False
        if n_sessions is not None:
            dec = bool(n_sessions) and can_dec and (ch.bool() if want_decrypt is None else want_decrypt)
            enc = bool(n_sessions) and can_enc and (ch.bool() if want_encrypt is None else want_encrypt)
            area = [[f"{path}.authorizationArea", fr["authorizationArea"], ELLIPSIS]]
            elem = list_elem(fr["authorizationArea"])
            # which session carries the flag: the last one in half of the cases (a scan that stops early misses it)
            dec_at = (n_sessions - 1 if ch.bool() else ch.int(0, n_sessions - 1)) if dec else -1
            enc_at = (n_sessions - 1 if ch.bool() else ch.int(0, n_sessions - 1)) if enc else -1
            for i in range(n_sessions):
                area += self._session(
                    elem,
                    f"{path}.authorizationArea[{i}]",
                    attr_set=(0x20 if i == dec_at else 0) | (0x40 if i == enc_at else 0),
                    attr_clear=(0 if dec else 0x20) | (0 if enc else 0x40),
                )
            body += [[f"{path}.authSize", fr["authSize"], self._nbytes(area)]] + area
        body += self.struct(entry["command_params"], f"{path}.parameters", 1, enc=dec)
        toks = head + body
        toks[2][2] = self._nbytes(toks)
        meta = {"cc_name": cc_name, "sessions": n_sessions, "decrypt": dec, "encrypt": enc}
        return toks, meta

    def response(self, cc_name, n_sessions, enc=False, failed=False, path="", fail_code=None):
        L, ch = self.L, self.ch
        entry = L.commands[cc_name]
        fr = {n: t for n, t in L.framing["Response"]["fields"]}
        tag = SESSIONS if n_sessions is not None else NO_SESSIONS
        if n_sessions is None and ch.chance(1, 12):
            # any other valid structure tag reads as "no sessions" (e.g. TPM_ST_RSP_COMMAND 0x00C4 of a TPM 1.2 style answer)
            others = [v for lo, hi in L.allowed(fr["tag"]) for v in range(lo, hi + 1) if v != SESSIONS]
            tag = ch.choice(others)
            self.flags.add("unusual_response_tag")
        head = [[path, "Response", ELLIPSIS], [f"{path}.tag", fr["tag"], tag], [f"{path}.responseSize", fr["responseSize"], 0]]
        if failed:
            low = ch.int(1, 0xFFF)
            code = low | (ch.choice([0, 0, 0, 0x1000, 0x80000000, 0xFFFFF000]))
            if ch.chance(1, 10):
                # non-zero, but the twelve low bits are clear (only reserved bits set): still a failure - nothing follows the header
                code = ch.choice([0x00001000, 0x00010000, 0x40000000, 0xABCDE000, 0xFFFFF000])
            if fail_code is not None:
                code = fail_code
            toks = head + [[f"{path}.responseCode", fr["responseCode"], code]]
            toks[2][2] = self._nbytes(toks)
            return toks, {"cc_name": cc_name, "sessions": n_sessions, "failed": True, "encrypt": False}
        body = [[f"{path}.responseCode", fr["responseCode"], 0]]
        body += self.struct(entry["response_handles"], f"{path}.handles", 1)
        enc = bool(enc and n_sessions and L.first_param_is_tpm2b(entry["response_params"]))
        params = self.struct(entry["response_params"], f"{path}.parameters", 1, enc=enc)
        if n_sessions is not None:
            body += [[f"{path}.parameterSize", fr["parameterSize"], self._nbytes(params)]]
        body += params
        if n_sessions is not None:
            elem = list_elem(fr["authorizationArea"])
            body += [[f"{path}.authorizationArea", fr["authorizationArea"], ELLIPSIS]]
            enc_at = (n_sessions - 1 if ch.bool() else ch.int(0, n_sessions - 1)) if enc else -1
            for i in range(n_sessions):
                body += self._session(elem, f"{path}.authorizationArea[{i}]", attr_set=0x40 if i == enc_at else 0, attr_clear=0 if enc else 0x40)
        toks = head + body
        toks[2][2] = self._nbytes(toks)
        return toks, {"cc_name": cc_name, "sessions": n_sessions, "failed": False, "encrypt": enc}

    def meta(self):
        return {"unions": sorted(set(self.unions)), "lists": sorted(set(self.lists)), "flags": sorted(self.flags)}


# ---------------------------------------------------------------------------
# hypothesis strategies


def _n_sessions(ch, fixed):
    if fixed != "any":
        return fixed
    # a TPM takes at most three sessions, the decoder any number: four and five are drawn rarely
    return ch.choice([None, None, None, 1, 1, 1, 2, 2, 3, 3, 0, 0, 4, 5, 9])


@st.composite
def structures(draw, layout, tname=None, big=False, overrides=None, rare=True):
    ch = HypChooser(draw)
    if tname is None:
        tname = ch.choice(layout.non_union_types())
    b = Builder(layout, ch, big, rare)
    if overrides:
        toks = b.struct(tname, "", 0, overrides=overrides)
    else:
        toks = b.build(tname, "")
    return Case(tname, toks, layout, meta=b.meta())


@st.composite
def commands(draw, layout, cc_name=None, sessions="any", decrypt=None, big=False, rare=True):
    ch = HypChooser(draw)
    if cc_name is None:
        cc_name = ch.choice(sorted(layout.commands))
    b = Builder(layout, ch, big, rare)
    toks, meta = b.command(cc_name, _n_sessions(ch, sessions), want_decrypt=decrypt)
    meta.update(b.meta())
    return Case("Command", toks, layout, meta=meta)


@st.composite
def responses(draw, layout, cc_name=None, sessions="any", enc=None, failed=None, big=False, rare=True, unknown_cc=True):
    ch = HypChooser(draw)
    if cc_name is None:
        cc_name = ch.choice(sorted(layout.commands))
    n = _n_sessions(ch, sessions)
    if failed is None:
        failed = ch.chance(1, 6)
    if enc is None:
        enc = ch.bool()
    b = Builder(layout, ch, big, rare)
    toks, meta = b.response(cc_name, n, enc=enc, failed=failed)
    meta.update(b.meta())
    cc = layout.commands[cc_name]["code"]
    if failed and unknown_cc and ch.chance(1, 4):
        # the (header-only) answer to a command the decoder has no layout for, e.g. TPM_RC_COMMAND_CODE to a vendor command
        # (also codes whose low half is a known command: vendor bit / reserved bits on top of it)
        cc = ch.choice([c for c in (0x15A, 0x199, 0x11E, 0x20000001, 0x7FFFFFFF, None, 0x20000000 | cc, 0x00010000 | cc, 0xFFFF0000 | cc) if c not in layout.cc_by_code])
        meta["unknown_cc"] = True
    return Case("Response", toks, layout, cc=cc, enc=meta["encrypt"], meta=meta)


@st.composite
def streams(draw, layout, max_pairs=4, lone_tail=True, big=False, rare=True):
    ch = HypChooser(draw)
    n = ch.int(1, max_pairs)
    toks = []
    msgs = []
    names = sorted(layout.commands)
    b = Builder(layout, ch, big, rare)
    # state carried from pair to pair: in a third of the longer streams the first command asks for an encrypted response
    # parameter and every later command has no sessions at all but an answer starting with a TPM2B (what the first pair
    # set up must not reach the later ones)
    carry = n >= 2 and ch.chance(1, 3)
    enc_names = [c for c in names if layout.first_param_is_tpm2b(layout.commands[c]["response_params"])]
    if carry:
        b.flags.add("stream_enc_then_plain")
    bare = [c for c in names if not layout.structs[layout.commands[c]["command_handles"]]["fields"] and not layout.structs[layout.commands[c]["command_params"]]["fields"]]
    for i in range(n):
        if carry:
            cc_name = ch.choice(enc_names)
            ns = ch.choice([1, 2, 3]) if i == 0 else None
            ctoks, cmeta = b.command(cc_name, ns, want_encrypt=True if i == 0 else None)
        else:
            cc_name = ch.choice(names)
            if bare and ch.chance(1, 12):
                cc_name = ch.choice(bare)
            ns = _n_sessions(ch, "any")
            ctoks, cmeta = b.command(cc_name, ns)
        first = len(toks)
        toks += ctoks
        msgs.append({"kind": "Command", "cc_name": cc_name, "cc": layout.commands[cc_name]["code"], "first_token": first, "n_tokens": len(ctoks), "sessions": ns, "encrypt": cmeta["encrypt"], "decrypt": cmeta["decrypt"]})
        if lone_tail and i == n - 1 and ch.chance(1, 6):
            break
        failed = ch.chance(1, 5) if not carry else (i == 0 and ch.chance(1, 3))
        twin = ns is None and not carry and sum(1 for t in ctoks if t[2] != ELLIPSIS) == 3 and ch.bool()
        if twin:
            # a header-only command (GetTestResult, ReadClock) answered by a failure whose response code is the command
            # code: two consecutive messages with the very same bytes (nothing may take the second for a repetition)
            rtoks, rmeta = b.response(cc_name, None, failed=True, fail_code=layout.commands[cc_name]["code"])
            rtoks[1][2] = NO_SESSIONS
            failed = True
            b.flags.add("identical_consecutive_messages")
        else:
            # a successful response mirrors the command's sessions; a failed one is header-only
            rtoks, rmeta = b.response(cc_name, ns if not failed else ch.choice([None, ns]), enc=cmeta["encrypt"], failed=failed)
        if cmeta["encrypt"] and not failed and not rmeta["encrypt"]:
            # cannot honour the request (no sessions in the response): regenerate the expectation instead
            raise AssertionError("builder: encrypt requested but response cannot mirror it")
        first = len(toks)
        toks += rtoks
        msgs.append({"kind": "Response", "cc_name": cc_name, "cc": layout.commands[cc_name]["code"], "first_token": first, "n_tokens": len(rtoks), "sessions": ns, "failed": failed, "enc": cmeta["encrypt"]})
    meta = b.meta()
    meta["messages"] = [{k: v for k, v in m.items()} for m in msgs]
    return Case("CommandResponseStream", toks, layout, meta=meta)


@st.composite
def messages(draw, layout, big=False):
    """Any single decodable unit: a structure, a command or a response."""
    which = draw(st.integers(0, 5))
    if which <= 1:
        return draw(structures(layout, big=big))
    if which <= 3:
        return draw(commands(layout, big=big))
    return draw(responses(layout, big=big))


def selector_points(layout):
    """All (struct type, selector field, selector value) triples: every way a union arm can be selected."""
    out = []
    for sname in sorted(layout.snap["structs"]):
        s = layout.snap["structs"][sname]
        for sf in sorted(set(s.get("selectors", {}).values())):
            stype = layout.field_type(sname, sf)
            for lo, hi in layout.allowed(stype):
                if hi - lo > 256:
                    continue
                for v in range(lo, hi + 1):
                    out.append((sname, sf, v))
    return out


def reachable_arms(layout):
    arms = set()
    for sname, sf, v in selector_points(layout):
        s = layout.struct(sname)
        for uf, f in s["selectors"].items():
            if f == sf:
                ut = layout.field_type(sname, uf)
                arms.add((ut, layout.select(ut, v)))
    return arms


@st.composite
def long_streams(draw, layout, min_pairs=560, max_pairs=760):
    """A long stream (hundreds of messages, thousands of list events in one stream): a few hypothesis-drawn small
    command/response pairs, cycled (drawing every pair separately would exceed hypothesis' entropy budget)."""
    ch = HypChooser(draw)
    n = max_pairs - ch.int(0, max_pairs - min_pairs)  # hypothesis' first (minimal) example is the longest stream
    small = [c for c in ("GetRandom", "StirRandom", "Startup", "SelfTest", "FlushContext", "ReadClock", "PCR_Reset") if c in layout.commands]
    b = Builder(layout, ch, big=False, rare=False)
    pairs = []
    for _ in range(ch.int(3, 6)):
        cc_name = ch.choice(small)
        ns = ch.choice([2, 1, 1, None])
        ctoks, cmeta = b.command(cc_name, ns)
        failed = ch.chance(1, 8)
        rtoks, rmeta = b.response(cc_name, ns if not failed else None, enc=cmeta["encrypt"], failed=failed)
        pairs.append((cc_name, ns, ctoks, cmeta, rtoks, failed))
    toks, msgs = [], []
    for i in range(n):
        cc_name, ns, ctoks, cmeta, rtoks, failed = pairs[i % len(pairs)]
        msgs.append({"kind": "Command", "cc_name": cc_name, "cc": layout.commands[cc_name]["code"], "first_token": len(toks), "n_tokens": len(ctoks), "sessions": ns, "encrypt": cmeta["encrypt"], "decrypt": cmeta["decrypt"]})
        toks += [list(t) for t in ctoks]
        msgs.append({"kind": "Response", "cc_name": cc_name, "cc": layout.commands[cc_name]["code"], "first_token": len(toks), "n_tokens": len(rtoks), "sessions": ns, "failed": failed, "enc": cmeta["encrypt"]})
        toks += [list(t) for t in rtoks]
    meta = b.meta()
    meta["messages"] = msgs
    return Case("CommandResponseStream", toks, layout, meta=meta)


LONG_LIST_TYPES = ["TPML_PCR_SELECTION", "TPML_DIGEST", "TPML_HANDLE", "TPML_ALG_PROPERTY", "TPML_TAGGED_TPM_PROPERTY"]


@st.composite
def long_lists(draw, layout):
    """A counted list with around a thousand elements (several thousand events, thousands of nested lists): three
    hypothesis-drawn elements, cycled."""
    ch = HypChooser(draw)
    tname = ch.choice([t for t in LONG_LIST_TYPES if t in layout.snap["structs"]])
    n = ch.choice([1300, 1100, 1000, 520, 260])  # hypothesis' first (minimal) example is the longest list
    (cname, ctype), (lname, ltype) = layout.struct(tname)["fields"]
    b = Builder(layout, ch, big=False, rare=False)
    templates = [b.build(list_elem(ltype), f".{lname}[{j}]", 3) for j in range(3)]
    toks = [["", tname, ELLIPSIS], [f".{cname}", ctype, n], [f".{lname}", ltype, ELLIPSIS]]
    for i in range(n):
        j = i % 3
        prefix = f".{lname}[{j}]"
        toks += [[f".{lname}[{i}]" + p[len(prefix) :], t, v] for p, t, v in templates[j]]
    meta = b.meta()
    meta["lists"] = sorted(set(meta.get("lists", [])) | {(ltype, n)})
    return Case(tname, toks, layout, meta=meta)


def huge_cases(layout):
    """Deterministic well-formed encodings with very long buffers / lists (lengths around 4096, 8192 and the UINT16 limit)."""
    out = []
    # (4094, 8190, 16382 and 65534 make the whole encoding exactly 4096, 8192, 16384 and 65536 bytes long)
    for n in (4094, 4095, 4096, 4097, 8190, 8191, 8192, 8193, 16382, 65534, 65535):
        toks = [["", "TPM2B_MAX_BUFFER", ELLIPSIS], [".size", "UINT16", n], [".buffer", "list[BYTE]", ELLIPSIS]]
        toks += [[f".buffer[{i}]", "BYTE", (i * 7 + n) & 0xFF] for i in range(n)]
        out.append(Case("TPM2B_MAX_BUFFER", toks, layout, meta={"lists": [("list[BYTE]", n)], "flags": ["huge"]}))
    for n in (2046, 4094, 4097, 8193):
        algs = [v for lo, hi in layout.allowed("TPM_ALG_ID") for v in range(lo, hi + 1)]
        toks = [["", "TPML_ALG", ELLIPSIS], [".count", "UINT32", n], [".algorithms", "list[TPM_ALG_ID]", ELLIPSIS]]
        toks += [[f".algorithms[{i}]", "TPM_ALG_ID", algs[i % len(algs)]] for i in range(n)]
        out.append(Case("TPML_ALG", toks, layout, meta={"lists": [("list[TPM_ALG_ID]", n)], "flags": ["huge"]}))
    return out


class FixedChooser:
    """Deterministic chooser (always the first / lowest option) for hand-shaped encodings."""

    def int(self, lo, hi):
        return lo

    def choice(self, seq):
        return list(seq)[0]

    def bool(self):
        return False

    def chance(self, num, den):
        return False

    def bytes(self, n):
        return bytes(n)


def huge_messages(layout):
    """Well-formed GetRandom responses with one session whose randomBytes buffer is very long (so that events follow the
    long buffer): 4096, 65534 and 65535 bytes (the UINT16 limit; the message exceeds 64 KiB)."""
    out = []
    for n in (4096, 65534, 65535):
        b = Builder(layout, FixedChooser(), big=False, rare=False)
        toks, meta = b.response("GetRandom", 1, enc=False, failed=False)
        i = next(k for k, t in enumerate(toks) if t[0] == ".parameters.randomBytes.size")
        j = next(k for k, t in enumerate(toks) if t[0] == ".parameters.randomBytes.buffer")
        k = j + 1
        while k < len(toks) and toks[k][0].startswith(".parameters.randomBytes.buffer["):
            k += 1
        old = k - j - 1
        toks[i][2] = n
        toks[j + 1 : k] = [[f".parameters.randomBytes.buffer[{x}]", "BYTE", (x * 13 + n) & 0xFF] for x in range(n)]
        for t in toks:
            if t[0] in (".parameterSize", ".responseSize"):
                t[2] += n - old
        out.append(Case("Response", toks, layout, cc=layout.commands["GetRandom"]["code"], enc=False, meta={"cc_name": "GetRandom", "sessions": 1, "failed": False, "flags": ["huge"], "lists": [("list[BYTE]", n)]}))
    return out
