"""Observation adapters: run the library under test and turn what it does into plain data.

The library is imported from $TPMSTREAM_SRC (default /repo/src), i.e. always the current working tree.
"""
import os
import sys
import traceback

SRC = os.environ.get("TPMSTREAM_SRC", "/repo/src")
if SRC not in sys.path:
    sys.path.insert(0, SRC)

from tpmstream.common import error as E  # noqa: E402
from tpmstream.common.event import MarshalEvent, WarningEvent  # noqa: E402
from tpmstream.io.binary import Binary  # noqa: E402
from tpmstream.spec import all_types  # noqa: E402
from tpmstream.spec.commands import Command, CommandResponseStream, Response  # noqa: E402
from tpmstream.spec.commands.params_common import TPMS_PARAMS  # noqa: E402
from tpmstream.spec.structures.constants import TPM_CC  # noqa: E402

from tools.extract_layout import type_expr  # noqa: E402

ELLIPSIS = "..."
ENC = "#enc"

_REGISTRY = {t.__name__: t for t in all_types}
try:
    from tpmstream.spec.commands import command_response_types

    for _t in command_response_types:
        _REGISTRY.setdefault(_t.__name__, _t)
    from tpmstream.spec.commands.params_common import TPM2B_ENCRYPTED_PARAM

    _REGISTRY.setdefault("TPM2B_ENCRYPTED_PARAM", TPM2B_ENCRYPTED_PARAM)
except Exception:  # pragma: no cover
    pass

DOCUMENTED = (E.ConstraintViolatedError, E.InputStreamBytesDepletedError, E.InputStreamSuperfluousBytesError)


def lib_type(name):
    return _REGISTRY[name]


def register_type(cls):
    _REGISTRY[cls.__name__] = cls


def reset_state():
    """Clear the only module-level state of the decoder (the encrypted-params cache)."""
    try:
        TPMS_PARAMS.encrypted.__func__.cache_clear()
    except AttributeError:
        pass


def type_name(t):
    name = type_expr(t)
    if getattr(t, "_encrypted", False) is True and not name.startswith("list["):
        name += ENC
    return name


def event_tuple(ev):
    """(path, type name, value) for a MarshalEvent; ('!warning', class name) for a WarningEvent."""
    if isinstance(ev, MarshalEvent):
        v = ELLIPSIS if ev.value is ... else int(ev.value)
        return (str(ev.path), type_name(ev.type), v)
    if isinstance(ev, WarningEvent):
        return ("!warning", type(ev.error).__name__)
    return ("!other", repr(ev))


def value_class(ev):
    if not isinstance(ev, MarshalEvent):
        return type(ev).__name__
    return ELLIPSIS if ev.value is ... else type(ev.value).__name__


def _int_or_none(v):
    return None if v is None else int(v)


def describe_error(err, probe=None):
    """Normalise a documented error into a plain dict (details captured now: constraints keep mutating)."""
    if isinstance(err, E.InputStreamBytesDepletedError):
        return {"kind": "depleted", "command_code": _int_or_none(err.command_code)}
    if isinstance(err, E.InputStreamSuperfluousBytesError):
        # a caller may log the error first and read the surplus more than once: the value used is the one read last
        _ = str(err)
        first = bytes(err.bytes_remaining)
        last = bytes(err.bytes_remaining)
        d = {"kind": "superfluous", "remaining": last, "command_code": _int_or_none(err.command_code)}
        if first != last:
            d["remaining_first_read"] = first
        return d
    d = {}
    if isinstance(err, E.ValueConstraintViolatedError):
        c = err.constraint
        d = {
            "kind": "value",
            "constraint_path": str(c.constraint_path),
            "type": c.tpm_type.__name__,
            "value": _int_or_none(err.value),
            "_valid_values": c.valid_values,
        }
    elif isinstance(err, E.SizeConstraintExceededError):
        c = err.constraint
        d = {
            "kind": "exceeded",
            "constraint_path": str(c.constraint_path),
            "size_max": int(c.size_max),
            "size_already": int(c.size_already),
            "violator_path": str(err.violator_path),
            "exceeded_by": int(err.exceeded_by),
        }
    elif isinstance(err, E.SizeConstraintSubceededError):
        c = err.constraint
        d = {
            "kind": "subceeded",
            "constraint_path": str(c.constraint_path),
            "size_max": int(c.size_max),
            "size_already": int(c.size_already),
        }
    elif isinstance(err, E.AnticipatedSizeConstraintExceededError):
        c = err.constraint
        d = {
            "kind": "anticipated",
            "constraint_path": str(c.constraint_path),
            "size_max": int(c.size_max),
            "size_already": int(c.size_already),
            "violator_path": str(err.violator_path),
            "violator_value": int(err.violator_value),
            "exceeded_by": int(err.exceeded_by),
        }
    elif type(err).__name__ == "ParameterEncryptionMismatchError":
        d = {"kind": "encmismatch", "expected": bool(err.expected), "actual": bool(err.actual), "path": str(err.path)}
    elif isinstance(err, E.ConstraintViolatedError):
        d = {"kind": "constraint-other", "class": type(err).__name__}
    else:
        return None
    d["message"] = str(err)
    return d


def crash_signature(exc):
    """(class name, innermost tpmstream frame 'file:function')."""
    where = "?"
    tb = traceback.extract_tb(exc.__traceback__)
    for fr in reversed(tb):
        fn = fr.filename.replace("\\", "/")
        if "/tpmstream/" in fn:
            where = f"{fn.split('/tpmstream/', 1)[1]}:{fr.name}"
            break
    return {"kind": "crash", "class": type(exc).__name__, "where": where, "message": str(exc)[:200]}


class CountingSource:
    """Iterator over bytes that counts how many were pulled."""

    def __init__(self, data):
        self._it = iter(data)
        self.pulled = 0
        self.exhausted = False

    def __iter__(self):
        return self

    def __next__(self):
        try:
            b = next(self._it)
        except StopIteration:
            self.exhausted = True
            raise
        self.pulled += 1
        return b


class Observation:
    __slots__ = ("events", "raw", "outcome", "obj", "pulled", "pulled_at", "warnings", "remaining_is_iter", "delivery")

    def __init__(self):
        self.events = []  # tuples
        self.raw = []  # event objects
        self.outcome = None
        self.obj = None
        self.pulled = None
        self.pulled_at = []  # bytes pulled when each event was delivered
        self.warnings = []  # (index in events, described error)
        self.delivery = None  # name of the delivery context used instead of Binary.marshal over bytes (see context.py)


_MIX = False
DELIVERIES = {}  # name -> number of decodes delivered that way (per process)


_MIX_EXCLUDE = ()


def mix(on=True, exclude=()):
    """Opt in: a deterministic share of the decodes of this process goes through the other front ends / byte sources.
    `exclude`: deliveries that do not apply to the check (pcapng for checks that look at the object the decoder returns:
    the pcapng front end does not pass it on, which no property claims)."""
    global _MIX, _MIX_EXCLUDE
    _MIX = bool(on)
    _MIX_EXCLUDE = tuple(exclude)


def run_decode(tname_or_type, data, command_code=None, enc=None, strict=True, source=None, max_events=None, marshal=None, root="", delivery=None, **extra):
    """Run the library's decoder to its end.  Returns an Observation; never raises."""
    tpm_type = lib_type(tname_or_type) if isinstance(tname_or_type, str) else tname_or_type
    obs = Observation()
    if (delivery or _MIX) and source is None and marshal is None and not extra:
        from . import context

        kind = delivery or context.choose(tpm_type.__name__, data)  # `delivery`: a caller's explicit choice (context.KINDS)
        got = context.deliver(kind, tpm_type.__name__, data, lib_type) if kind and (delivery or kind not in _MIX_EXCLUDE) else None
        if got is not None:
            marshal, source = got[0], got[1]
            obs.delivery = kind
            DELIVERIES[kind] = DELIVERIES.get(kind, 0) + 1
    src = CountingSource(data) if source is None else source
    kwargs = dict(tpm_type=tpm_type, buffer=src, abort_on_error=strict)
    if command_code is not None:
        kwargs["command_code"] = TPM_CC(command_code) if isinstance(command_code, int) else command_code
    if enc:
        kwargs["parameter_encryption"] = True
    elif enc is False and tpm_type is Response and len(data) % 4 == 1:
        # "no encryption expected" spelled out (False) must read like leaving the argument out (None); a quarter of the cases
        kwargs["parameter_encryption"] = False
    if root:
        from tpmstream.common.path import Path

        kwargs["root_path"] = Path.from_string(root)
    kwargs.update(extra)
    gen = (marshal or Binary.marshal)(**kwargs)
    limit = max_events if max_events is not None else 50 * (len(data) + 4) + 1000
    try:
        while True:
            try:
                ev = next(gen)
            except StopIteration as stop:
                obs.obj = stop.value
                obs.outcome = {"kind": "ok"}
                break
            obs.raw.append(ev)
            obs.events.append(event_tuple(ev))
            obs.pulled_at.append(getattr(src, "pulled", None))
            if isinstance(ev, WarningEvent):
                obs.warnings.append((len(obs.events) - 1, describe_error(ev.error) or {"kind": "warning-other", "class": type(ev.error).__name__}))
            if len(obs.events) > limit:
                obs.outcome = {"kind": "runaway", "events": len(obs.events)}
                break
    except DOCUMENTED as err:
        d = describe_error(err)
        if "remaining" not in d and isinstance(err, E.ConstraintViolatedError):
            # a caller may look at the attribute more than once (is it there? log it, then use it): the value used is the
            # one read last
            _ = err.bytes_remaining is None
            rem = err.bytes_remaining
            try:
                d["remaining"] = None if rem is None else bytes(rem)
            except Exception as exc2:  # an unusable attribute is itself an observation
                d["remaining"] = None
                d["remaining_error"] = repr(exc2)
        obs.outcome = d
    except BaseException as exc:  # noqa: BLE001 - every other exception is the observation
        if isinstance(exc, (KeyboardInterrupt, SystemExit, MemoryError)):
            raise
        obs.outcome = crash_signature(exc)
    obs.pulled = getattr(src, "pulled", None)
    if obs.delivery is not None:
        obs.pulled_at = [None] * len(obs.pulled_at)
    return obs
