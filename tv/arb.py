"""Generators of arbitrary / malformed inputs: random bytes, low-entropy bytes, havoc-mutated well-formed messages,
well-formed messages and repository corpus packets decoded as the wrong type, and single/multiple injected faults."""
import glob
import os

from hypothesis import strategies as st

from . import faults, gen
from .observe import SRC

LOW = bytes([0x00, 0x01, 0x02, 0x10, 0x80, 0xFF])

_CORPUS = None


def corpus_packets(limit=400):
    """A deterministic sample of the TPM packets in the repository's example captures (sorted files, first packets)."""
    global _CORPUS
    if _CORPUS is None:
        import dpkt

        out = []
        files = sorted(glob.glob(os.path.join(SRC, "tpmstream", "data", "*.pcap")))
        for f in files:
            try:
                with open(f, "rb") as fh:
                    for i, (ts, buf) in enumerate(dpkt.pcapng.Reader(fh)):
                        if i >= 6:
                            break
                        out.append(bytes(dpkt.ip.IP(buf).data.data))
            except Exception:  # noqa: BLE001 - the corpus is only a seed pool
                continue
            if len(out) >= limit:
                break
        _CORPUS = out or [bytes.fromhex("80010000000c000001440000")]
    return _CORPUS


def decodable_types(L, stream=True):
    return L.non_union_types() + ["Command", "Response"] + (["CommandResponseStream"] if stream else [])


@st.composite
def target(draw, L, stream=True):
    """(type name, command code or None, encryption flag)."""
    # messages are what captures hold: every other target is a command, a response or a stream
    msgs = ["Command", "Response"] + (["CommandResponseStream"] if stream else [])
    t = draw(st.one_of(st.sampled_from(decodable_types(L, stream)), st.sampled_from(msgs)))
    cc, enc = None, False
    if t == "Response":
        cc = L.commands[draw(st.sampled_from(sorted(L.commands)))]["code"]
        enc = draw(st.booleans())
    return t, cc, enc


@st.composite
def havoc(draw, data, max_ops=4):
    data = bytearray(data)
    for _ in range(draw(st.integers(1, max_ops))):
        op = draw(st.integers(0, 5))
        pos = draw(st.integers(0, max(0, len(data) - 1))) if data else 0
        if op == 0 and data:
            data[pos] = draw(st.integers(0, 255))
        elif op == 1 and data:
            data[pos] ^= 1 << draw(st.integers(0, 7))
        elif op == 2:
            data[pos:pos] = draw(st.binary(min_size=1, max_size=4))
        elif op == 3 and data:
            del data[pos : pos + draw(st.integers(1, 4))]
        elif op == 4 and data:
            data[pos] = draw(st.sampled_from(list(LOW)))
        elif op == 5 and len(data) >= 2:
            v = draw(st.sampled_from([0, 1, 0xFFFF, len(data), len(data) + 1, max(0, len(data) - 1)]))
            pos = min(pos, len(data) - 2)
            data[pos : pos + 2] = v.to_bytes(2, "big")
    return bytes(data)


@st.composite
def arbitrary_input(draw, L, stream=True, max_len=96):
    """(type, cc, enc, bytes, how)."""
    t, cc, enc = draw(target(L, stream))
    how = draw(st.sampled_from(["random", "low", "mutated", "mutated", "mutated", "wrongtype", "corpus", "flags"]))
    if how == "flags" and t not in ("Command", "Response", "CommandResponseStream"):
        how = "mutated"
    if how == "random":
        data = draw(st.binary(max_size=max_len))
    elif how == "low":
        data = bytes(draw(st.lists(st.sampled_from(list(LOW)), max_size=max_len)))
    elif how == "mutated":
        if t == "Command":
            case = draw(gen.commands(L))
        elif t == "Response":
            case = draw(gen.responses(L))
            cc, enc = case.cc, (case.enc if draw(st.integers(0, 7)) else not case.enc)
        elif t == "CommandResponseStream":
            case = draw(gen.streams(L, max_pairs=2))
        else:
            case = draw(gen.structures(L, t))
        data = draw(havoc(case.data))
    elif how == "flags":
        # an otherwise well-formed message whose session attributes / expected encryption contradict its layout
        if t == "Command":
            case = draw(gen.commands(L, sessions=draw(st.sampled_from([1, 2, 3]))))
        elif t == "Response":
            case = draw(gen.responses(L, sessions=draw(st.sampled_from([None, 0, 1, 2])), failed=False))
            cc, enc = case.cc, case.enc
        else:
            case = draw(gen.streams(L, max_pairs=2))
        sites = [i for i, (p, tn, v) in enumerate(case.tokens) if tn == "TPMA_SESSION"]
        changes = {}
        if sites and (t != "Response" or draw(st.booleans())):
            for i in draw(st.lists(st.sampled_from(sites), min_size=1, max_size=2, unique=True)):
                changes[i] = case.tokens[i][2] ^ draw(st.sampled_from([0x20, 0x40, 0x60]))
        else:
            enc = not enc
        data = faults.patch(L, case, changes)
    elif how == "wrongtype":
        data = draw(gen.messages(L)).data
        if draw(st.booleans()):
            data = draw(havoc(data, 2))
    else:
        data = draw(st.sampled_from(corpus_packets()))
        if draw(st.integers(0, 2)) == 0:
            data = draw(havoc(data, 2))
    return t, cc, enc, data, how


@st.composite
def faulted_input(draw, L, stream=True):
    """A well-formed case with 1..3 injected faults of mixed classes: (type, cc, enc, bytes, labels)."""
    which = draw(st.integers(0, 9))
    if which <= 2:
        case = draw(gen.commands(L))
    elif which <= 5:
        case = draw(gen.responses(L, failed=False))
    elif which <= 8 or not stream:
        case = draw(gen.structures(L))
    else:
        case = draw(gen.streams(L, max_pairs=2))
    labels = []
    changes = {}
    nf = draw(st.integers(1, 3))
    ssites = faults.size_sites(L, case)
    vsites = faults.constrained_sites(L, case)
    for _ in range(nf):
        kind = draw(st.sampled_from(["size", "size", "value", "cut", "suffix"]))
        if kind == "size" and ssites:
            i = draw(st.sampled_from(ssites))
            t = case.tokens[i][1]
            lo, hi = L.limits(t)
            v = case.tokens[i][2]
            nv = draw(st.sampled_from([v - 1, v + 1, v - 2, v + 2, v + 5, 0, hi, v + 16]))
            if lo <= nv <= hi and nv != v:
                changes[i] = nv
                labels.append(f"size:{case.tokens[i][0]}:{v}->{nv}")
        elif kind == "value" and vsites:
            i = draw(st.sampled_from(vsites))
            nv = draw(faults.outside_value(L, case.tokens[i][1]))
            changes[i] = nv
            labels.append(f"value:{case.tokens[i][0]}->{nv}")
        else:
            labels.append(kind)
    data = faults.patch(L, case, changes)
    if "cut" in labels and len(data) > 1:
        data = data[: draw(st.integers(1, len(data) - 1))]
    if "suffix" in labels:
        # surplus bytes: random, or low-entropy (a trailer of zeros is what an mssim socket appends)
        data = data + draw(st.one_of(st.binary(min_size=1, max_size=6), st.lists(st.sampled_from(list(LOW)), min_size=1, max_size=6).map(bytes), st.sampled_from([b"\x00", b"\x00\x00\x00\x00", b"\x00\x00\x00\x01"])))
    return case.type, case.cc, case.enc, data, labels
