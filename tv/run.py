"""CLI: python -m tv.run <ID> [--tier quick|thorough] [--replay <file>]

Seeds come from VERIF_SEED (default 1); the tier can also be given as VERIF_TIER.
The process re-executes itself with PYTHONHASHSEED=0 so that no result depends on hash order.
"""
import argparse
import importlib
import os
import sys


def main():
    if os.environ.get("PYTHONHASHSEED") != "0":
        env = dict(os.environ, PYTHONHASHSEED="0")
        os.execve(sys.executable, [sys.executable, "-m", "tv.run"] + sys.argv[1:], env)
    ap = argparse.ArgumentParser()
    ap.add_argument("prop")
    ap.add_argument("--tier", default=os.environ.get("VERIF_TIER") or "quick", choices=["quick", "thorough"])
    ap.add_argument("--replay")
    ap.add_argument("--shards", type=int, default=None)
    args = ap.parse_args()
    try:
        seed = int(os.environ.get("VERIF_SEED", "1") or "1")
    except ValueError:
        seed = 1
    from tv import runner

    try:
        mod = importlib.import_module(f"tv.checks.{args.prop.lower()}")
    except Exception:
        import traceback

        traceback.print_exc()
        print(f"HARNESS-ERROR cannot import check {args.prop}", file=sys.stderr)
        sys.exit(2)
    if args.replay:
        sys.exit(runner.run_replay(mod, args.replay))
    sys.exit(runner.run_check(mod, args.tier, seed, args.shards or runner.NSHARDS))


if __name__ == "__main__":
    main()
