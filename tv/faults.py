"""Fault injectors over generated well-formed cases (bytes + token spans)."""
from hypothesis import strategies as st

from .gen import ELLIPSIS
from .layout import SIZE_FIELD_NAMES


def constrained_sites(L, case):
    """Token indices of primitive fields whose declared type allows fewer values than its width."""
    return [i for i, (p, t, v) in enumerate(case.tokens) if v != ELLIPSIS and L.is_constrained(t)]


def size_sites(L, case):
    """Token indices of size fields: commandSize, responseSize, authSize, parameterSize and every TPM2B size."""
    out = []
    for i, (p, t, v) in enumerate(case.tokens):
        if v == ELLIPSIS:
            continue
        name = p.rsplit(".", 1)[-1]
        if name in SIZE_FIELD_NAMES and p.count(".") == 1:
            out.append(i)
        elif name == "size" and i > 0 and case.tokens[i - 1][2] == ELLIPSIS and case.tokens[i - 1][1].startswith("TPM2B") and case.tokens[i - 1][0] == p[: -len(".size")]:
            out.append(i)
    return out


def patch(L, case, changes):
    """Bytes of `case` with the primitive tokens in `changes` ({token index: new int}) re-encoded."""
    data = bytearray(case.data)
    for i, v in changes.items():
        off, w = case.spans[i]
        t = case.tokens[i][1]
        lo, hi = L.limits(t)
        if not lo <= v <= hi:
            raise ValueError((t, v))
        data[off : off + w] = int(v).to_bytes(w, "big", signed=L.signed(t))
    return bytes(data)


@st.composite
def outside_value(draw, L, tname):
    outs = L.outside_values(tname)
    lo, hi = L.limits(tname)
    far = L.far_outside_values(tname)
    pick = draw(st.integers(0, 5))
    if far and pick == 5:
        return draw(st.sampled_from(far))
    if outs and pick > 0:
        return draw(st.sampled_from(outs))
    for _ in range(8):
        v = draw(st.integers(lo, hi))
        if not L.contains(tname, v):
            return v
    return outs[0]


@st.composite
def value_faults(draw, L, case, max_faults=3):
    """{token index: outside value} for 1..max_faults constrained leaves of the case (empty if it has none)."""
    sites = constrained_sites(L, case)
    if not sites:
        return {}
    n = draw(st.integers(1, min(max_faults, len(sites))))
    chosen = draw(st.lists(st.sampled_from(sites), min_size=n, max_size=n, unique=True))
    return {i: draw(outside_value(L, case.tokens[i][1])) for i in sorted(chosen)}


def boundary_values(L, tname):
    """Valid boundary values of a constrained type (interval ends)."""
    out = []
    for lo, hi in L.allowed(tname):
        out.extend([lo, hi])
    return sorted(set(out))


def size_perturbations(L, case, ref):
    """Every size field of a well-formed case x {-k, +k (k in 1,2,5), 0, max, fits-exactly, exceeds-by-one}.

    `ref` is the reference decode of the unperturbed case (for the region table).  Yields (token index, new value, label, depth)."""
    regions = {r["path"]: r for r in ref.regions}
    all_regions = list(ref.regions)
    for i in size_sites(L, case):
        path, t, v = case.tokens[i]
        lo, hi = L.limits(t)
        reg = regions.get(path)
        cands = {}
        for k in (1, 2, 3, 4, 5, 8):
            cands[f"-{k}"] = v - k
            cands[f"+{k}"] = v + k
        cands["zero"] = 0
        cands["max"] = hi
        depth = 0
        if reg is not None:
            s = reg["start"]
            enclosing = [q for q in all_regions if q is not reg and q["start"] <= s and q["start"] + q["max"] >= s + reg["max"] and q["size_event"] < reg["size_event"]]
            depth = len(enclosing)
            if enclosing:
                room = min(q["start"] + q["max"] for q in enclosing) - s
                cands["fits"] = room
                cands["exceeds"] = room + 1
        seen = set()
        for label, nv in cands.items():
            if lo <= nv <= hi and nv != v and nv not in seen:
                seen.add(nv)
                yield i, nv, label, depth


def value_perturbations(L, case):
    """Every constrained leaf x (values just outside each interval, 0, width limits when outside; every valid boundary kept).

    Yields (token index, new value, 'outside'|'boundary')."""
    for i in constrained_sites(L, case):
        path, t, v = case.tokens[i]
        for nv in L.outside_values(t):
            yield i, nv, "outside"
        # six of the structured far-outside values (single bits, a high bit on a member, members of the base type that
        # this type leaves out and their neighbours), rotating with the case so that all of them come up over a run
        far = L.far_outside_values(t)
        if far:
            import zlib

            start = zlib.crc32(case.data) + 7 * i
            for j in range(min(6, len(far))):
                yield i, far[(start + j * 31) % len(far)], "outside"
        for nv in boundary_values(L, t):
            if nv != v:
                yield i, nv, "boundary"


def consistent_insertions(L, case, ref, ks=(1, 4), fillers=(0x00, 0xA5)):
    """Extra bytes at the end of a sized region with every enclosing size field (the region's own included) increased by
    the same amount: all sizes stay mutually consistent, but the region now holds bytes no field accounts for.

    `ref` is the reference decode of the unperturbed case.  Yields (bytes, label)."""
    idx = {p: i for i, (p, t, v) in enumerate(case.tokens) if v != ELLIPSIS}
    regs = [r for r in ref.regions if r["path"] in idx]
    n = 0
    for reg in regs:
        end = reg["start"] + reg["max"]
        enclosing = [q for q in regs if q["start"] <= reg["start"] and q["start"] + q["max"] >= end and q["size_event"] <= reg["size_event"]]
        for k in ks:
            changes = {}
            for q in enclosing:
                i = idx[q["path"]]
                lo, hi = L.limits(case.tokens[i][1])
                nv = case.tokens[i][2] + k
                if not lo <= nv <= hi:
                    changes = None
                    break
                changes[i] = nv
            if not changes:
                continue
            data = bytearray(patch(L, case, changes))
            fill = fillers[n % len(fillers)]
            n += 1
            data[end:end] = bytes([fill]) * k
            yield bytes(data), f"insert{k}@{reg['path']}"


SUFFIXES = [b"\x00", b"\x00\x00\x00\x00", b"\x00\x00\x00\x01", b"\x80\x01", b"\xff" * 3, bytes(8)]
