"""Fault injectors over generated well-formed cases (bytes + token spans)."""
from hypothesis import strategies as st

from .gen import ELLIPSIS
from .layout import SIZE_FIELD_NAMES


def constrained_sites(L, case):
    """Token indices of primitive fields whose declared type allows fewer values than its width."""
    return [i for i, (p, t, v) in enumerate(case.tokens) if v != ELLIPSIS and L.is_constrained(t)]


def size_sites(L, case):
    """Token indices of size fields: commandSize, responseSize, authSize, parameterSize and every TPM2B size."""
    out = []
    for i, (p, t, v) in enumerate(case.tokens):
        if v == ELLIPSIS:
            continue
        name = p.rsplit(".", 1)[-1]
        if name in SIZE_FIELD_NAMES and p.count(".") == 1:
            out.append(i)
        elif name == "size" and i > 0 and case.tokens[i - 1][2] == ELLIPSIS and case.tokens[i - 1][1].startswith("TPM2B") and case.tokens[i - 1][0] == p[: -len(".size")]:
            out.append(i)
    return out


def patch(L, case, changes):
    """Bytes of `case` with the primitive tokens in `changes` ({token index: new int}) re-encoded."""
    data = bytearray(case.data)
    for i, v in changes.items():
        off, w = case.spans[i]
        t = case.tokens[i][1]
        lo, hi = L.limits(t)
        if not lo <= v <= hi:
            raise ValueError((t, v))
        data[off : off + w] = int(v).to_bytes(w, "big", signed=L.signed(t))
    return bytes(data)


@st.composite
def outside_value(draw, L, tname):
    outs = L.outside_values(tname)
    lo, hi = L.limits(tname)
    if outs and draw(st.integers(0, 3)) > 0:
        return draw(st.sampled_from(outs))
    for _ in range(8):
        v = draw(st.integers(lo, hi))
        if not L.contains(tname, v):
            return v
    return outs[0]


@st.composite
def value_faults(draw, L, case, max_faults=3):
    """{token index: outside value} for 1..max_faults constrained leaves of the case (empty if it has none)."""
    sites = constrained_sites(L, case)
    if not sites:
        return {}
    n = draw(st.integers(1, min(max_faults, len(sites))))
    chosen = draw(st.lists(st.sampled_from(sites), min_size=n, max_size=n, unique=True))
    return {i: draw(outside_value(L, case.tokens[i][1])) for i in sorted(chosen)}


def boundary_values(L, tname):
    """Valid boundary values of a constrained type (interval ends)."""
    out = []
    for lo, hi in L.allowed(tname):
        out.extend([lo, hi])
    return sorted(set(out))


def size_perturbations(L, case, ref):
    """Every size field of a well-formed case x {-k, +k (k in 1,2,5), 0, max, fits-exactly, exceeds-by-one}.

    `ref` is the reference decode of the unperturbed case (for the region table).  Yields (token index, new value, label, depth)."""
    regions = {r["path"]: r for r in ref.regions}
    all_regions = list(ref.regions)
    for i in size_sites(L, case):
        path, t, v = case.tokens[i]
        lo, hi = L.limits(t)
        reg = regions.get(path)
        cands = {}
        for k in (1, 2, 3, 4, 5, 8):
            cands[f"-{k}"] = v - k
            cands[f"+{k}"] = v + k
        cands["zero"] = 0
        cands["max"] = hi
        depth = 0
        if reg is not None:
            s = reg["start"]
            enclosing = [q for q in all_regions if q is not reg and q["start"] <= s and q["start"] + q["max"] >= s + reg["max"] and q["size_event"] < reg["size_event"]]
            depth = len(enclosing)
            if enclosing:
                room = min(q["start"] + q["max"] for q in enclosing) - s
                cands["fits"] = room
                cands["exceeds"] = room + 1
        seen = set()
        for label, nv in cands.items():
            if lo <= nv <= hi and nv != v and nv not in seen:
                seen.add(nv)
                yield i, nv, label, depth


def value_perturbations(L, case):
    """Every constrained leaf x (values just outside each interval, 0, width limits when outside; every valid boundary kept).

    Yields (token index, new value, 'outside'|'boundary')."""
    for i in constrained_sites(L, case):
        path, t, v = case.tokens[i]
        for nv in L.outside_values(t):
            yield i, nv, "outside"
        for nv in boundary_values(L, t):
            if nv != v:
                yield i, nv, "boundary"
