#!/venv/bin/python
"""Coverage-guided fuzzing (atheris / libFuzzer) of the decoder with the semantic oracles of C06/C07/C08/C13 in the target.

usage: python -m tv.fuzz_target --oracle c06|c07|c08|c13 --out <dir> [--seeded] [libFuzzer flags: -runs=N -seed=S ...]

The first four input bytes are a data-provider header (type index, command-code index, flags), the rest is the payload that is
decoded.  On an oracle violation the target writes <dir>/violation.json (signature, message, replay payload) and raises, so that
libFuzzer stops and saves the crashing input.  Counters are flushed to <dir>/stats.json every 2000 executions (atexit handlers do
not run under libFuzzer)."""
import json
import os
import sys

for _deps in (os.environ.get("VERIF_DEPS"), os.path.join(os.path.dirname(os.path.dirname(os.path.abspath(__file__))), ".deps"), "/verif/.deps"):
    if _deps and os.path.isdir(_deps) and _deps not in sys.path:
        sys.path.insert(0, _deps)


class Violation(Exception):
    pass


class FuzzCtx:
    """The subset of runner.Ctx the oracles use."""

    def __init__(self, prop, out):
        from .runner import load_known

        self.prop = prop
        self.out = out
        self.known = load_known(prop)
        self.evaluations = 0
        self.nontrivial = 0
        self.counters = {}
        self.known_hits = {}
        self.samples = []

    def case(self, key, nontrivial, sample=None):
        self.evaluations += 1
        if nontrivial:
            self.nontrivial += 1
            if sample is not None and len(self.samples) < 3:
                from .runner import jsonable

                self.samples.append(jsonable(sample))
        if self.evaluations % 2000 == 0:
            self.flush()

    def count(self, label, n=1):
        self.counters[label] = self.counters.get(label, 0) + n

    def add(self, setname, item):
        pass

    def problem(self, signature, message, payload):
        from .runner import jsonable

        if signature in self.known:
            self.known_hits[signature] = self.known_hits.get(signature, 0) + 1
            return False
        with open(os.path.join(self.out, "violation.json"), "w") as f:
            json.dump({"signature": signature, "message": message, "payload": jsonable(payload)}, f)
        self.flush()
        raise Violation(f"{signature}: {message}")

    def flush(self):
        tmp = os.path.join(self.out, "stats.json.tmp")
        with open(tmp, "w") as f:
            json.dump({"evaluations": self.evaluations, "nontrivial": self.nontrivial, "counters": self.counters, "known_hits": self.known_hits, "samples": self.samples}, f)
        os.replace(tmp, os.path.join(self.out, "stats.json"))


def main():
    import argparse

    ap = argparse.ArgumentParser()
    ap.add_argument("--oracle", required=True, choices=["c06", "c07", "c08", "c13"])
    ap.add_argument("--out", required=True)
    ap.add_argument("--seeded", action="store_true")
    args, rest = ap.parse_known_args()
    os.makedirs(args.out, exist_ok=True)
    corpus = os.path.join(args.out, "corpus")
    os.makedirs(corpus, exist_ok=True)

    import atheris

    with atheris.instrument_imports(include=["tpmstream"]):
        from . import observe as O

    from . import arb
    from .checks import modes
    from .checks.common import layout
    from .checks.strictdiff import accounting_problem

    L = layout()
    types = arb.decodable_types(L)
    ccs = sorted(e["code"] for e in L.commands.values())
    ctx = FuzzCtx(args.oracle.upper(), args.out)

    if args.seeded:
        # seed corpus: repository packets as Command / Response / stream, each with a matching header
        ti_cmd, ti_rsp, ti_str = types.index("Command"), types.index("Response"), types.index("CommandResponseStream")
        for i, pkt in enumerate(arb.corpus_packets(120)):
            cc = int.from_bytes(pkt[6:10], "big") if len(pkt) >= 10 else 0
            ci = ccs.index(cc) if cc in ccs else 0
            for ti in (ti_cmd, ti_rsp, ti_str):
                with open(os.path.join(corpus, f"seed-{i}-{ti}"), "wb") as f:
                    f.write(bytes([ti % 256, ci % 256, 0, ti // 256]) + pkt)

    def one(data):
        if len(data) < 4:
            return
        ti = (data[0] | (data[3] & 1) << 8) % len(types)
        t = types[ti]
        cc = ccs[data[1] % len(ccs)] if t == "Response" else None
        enc = bool(data[2] & 1) and t == "Response"
        payload = bytes(data[4:])
        O.reset_state()
        if args.oracle == "c06":
            modes.judge_c06(ctx, L, t, cc, enc, payload, "fuzz")
        elif args.oracle == "c07":
            modes.judge_c07(ctx, L, t, cc, enc, payload, "fuzz")
        elif args.oracle == "c08":
            modes.judge_c08(ctx, L, t, cc, enc, payload, "fuzz")
        else:
            obs = O.run_decode(t, payload, command_code=cc, enc=enc, strict=True)
            is_c = obs.outcome["kind"] in ("value", "exceeded", "subceeded", "anticipated", "encmismatch")
            ctx.case((t, payload), is_c and obs.outcome.get("remaining") == b"")
            ctx.count(f"outcome:{obs.outcome['kind']}")
            p = accounting_problem(L, payload, obs)
            if p:
                ctx.problem(f"C13:{p[0]}", f"{p[1]}; input {payload.hex()} as {t} cc={cc} enc={enc}", {"type": t, "cc": cc, "enc": enc, "data": payload})

    atheris.Setup([sys.argv[0]] + rest + [corpus], one)
    try:
        atheris.Fuzz()
    finally:
        ctx.flush()


if __name__ == "__main__":
    main()
