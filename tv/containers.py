"""Renderers of byte streams into the input containers of tpmstream (hex text, swtpm log, pcapng), with layout noise
drawn from hypothesis, plus reference readers for the two text formats.

Every renderer returns the text/bytes and, for the text formats, `ends[k]` = number of characters that must have been read
to know byte k (1-based; ends[0] == 0), which is what the laziness part of C10 needs."""
import io

from hypothesis import strategies as st

WS = " \t\n\r\v\f"
HEXDIGITS = "0123456789abcdefABCDEF"


# ------------------------------------------------------------------------------------------------ hex text
@st.composite
def hex_text(draw, data, noisy=True):
    """Hex rendering of `data` with random letter case and whitespace between and inside pairs."""
    out = []
    ends = [0]
    pos = 0

    def ws(maxn):
        n = draw(st.integers(0, maxn)) if noisy else 0
        return "".join(draw(st.sampled_from(WS)) for _ in range(n))

    lead = ws(2)
    out.append(lead)
    pos += len(lead)
    inside = 0
    for b in data:
        hi, lo = f"{b:02x}"
        if draw(st.booleans()):
            hi = hi.upper()
        if draw(st.booleans()):
            lo = lo.upper()
        mid = ws(1) if draw(st.integers(0, 5)) == 0 else ""
        inside += bool(mid)
        tail = ws(2) if draw(st.integers(0, 2)) == 0 else ""
        chunk = hi + mid + lo
        out.append(chunk + tail)
        pos += len(chunk)
        ends.append(pos)
        pos += len(tail)
    return "".join(out), ends, {"ws_inside_pairs": inside}


def hex_reference(text):
    """bytes carried by a hex text, or None if it is not a sequence of hex pairs (whitespace anywhere is ignored)."""
    s = "".join(ch for ch in text if ch not in WS)
    if len(s) % 2 or any(ch not in HEXDIGITS for ch in s):
        return None
    return bytes.fromhex(s)


# ------------------------------------------------------------------------------------------------ swtpm log
PREAMBLE_WORDS = ["Starting", "vTPM", "manufacturing", "as", "tss:tss", "Successfully", "created", "RSA", "2048", "EK", "with", "handle", "0x81010001.", "swtpm:", "TPM2", "Ctrl", "Data", "client", "disconnected", "SSL", "IO", "SW"]


@st.composite
def swtpm_log(draw, messages):
    """An swtpm log in the documented layout carrying `messages` (list of bytes) in SWTPM_IO sections, in order.

    Free-text preamble (never containing the marker), Ctrl Cmd/Rsp sections in between, 1..32 upper-case pairs per line,
    optional leading/trailing spaces, LF or CRLF, blank lines."""
    nl = draw(st.sampled_from(["\n", "\r\n"]))
    parts = []
    ends = [0]
    pos = 0
    ctrl_between = 0

    def emit(s):
        nonlocal pos
        parts.append(s)
        pos += len(s)

    for _ in range(draw(st.integers(0, 3))):
        words = draw(st.lists(st.sampled_from(PREAMBLE_WORDS), min_size=0, max_size=6))
        emit(" ".join(words) + nl)

    def payload(data, count):
        per_line = draw(st.integers(1, 32))
        for i in range(0, len(data), per_line):
            emit(" " if draw(st.booleans()) else "")
            for j, b in enumerate(data[i : i + per_line]):
                if j:
                    emit(" ")
                emit(f"{b:02X}")
                if count:
                    ends.append(pos)
            emit((" " if draw(st.booleans()) else "") + nl)
        if draw(st.integers(0, 4)) == 0:
            emit(nl)

    def ctrl():
        kind = draw(st.sampled_from(["Cmd", "Rsp"]))
        data = draw(st.binary(min_size=0, max_size=8))
        emit(f"Ctrl {kind}: length {len(data)}{nl}")
        payload(data, False)

    for i, m in enumerate(messages):
        for _ in range(draw(st.sampled_from([0, 0, 1, 2]))):
            ctrl()
            ctrl_between += i > 0
        # the header's "length N" is commentary: what a section carries is its pairs (one header in six disagrees or has none)
        shown = draw(st.sampled_from([f": length {len(m)}"] * 5 + [f": length {max(0, len(m) - 1)}", f": length {len(m) + 2}", ": length 0", "", ": len"]))
        emit(f"SWTPM_IO_{'Read' if i % 2 == 0 else 'Write'}{shown}{nl}")
        payload(m, True)
    for _ in range(draw(st.sampled_from([0, 0, 1]))):
        ctrl()
    return "".join(parts), ends, {"ctrl_between_payload_sections": ctrl_between, "crlf": nl == "\r\n"}


SW_TOKENS = ["SWTPM_IO", "Ctrl", "\n", " ", "0A", "C7", "zz", "a0"]


def swtpm_reference(tokens):
    """Reference reading of a token sequence over SW_TOKENS.

    Returns ("bytes", payload bytes) for a log in the documented layout, ("error", bytes before the bad token) when a payload
    token is not an upper-case hex pair, or ("outside", None) when the sequence is not in the documented layout."""
    out = bytearray()
    state = "pre"  # pre/ctrl: ignoring until the next SWTPM_IO; header: until newline; payload
    for tok in tokens:
        if state in ("pre", "ctrl"):
            if tok == "SWTPM_IO":
                state = "header"
        elif state == "header":
            if tok == "\n":
                state = "payload"
        else:  # payload
            if tok in ("\n", " "):
                continue
            if tok == "SWTPM_IO":
                state = "header"
            elif tok == "Ctrl":
                state = "ctrl"
            elif tok in ("0A", "C7"):
                out.append(int(tok, 16))
            else:
                return ("error", bytes(out))
    if state == "header":
        return ("outside", None)
    return ("bytes", bytes(out))


# ------------------------------------------------------------------------------------------------ pcapng
def _frame(payload, ethernet, macs=(b"\x00" * 6, b"\x00" * 6)):
    import dpkt

    tcp = dpkt.tcp.TCP(sport=50000, dport=2321, seq=1, data=payload)
    ip = dpkt.ip.IP(src=b"\x7f\x00\x00\x01", dst=b"\x7f\x00\x00\x01", p=dpkt.ip.IP_PROTO_TCP, data=tcp)
    ip.len = len(ip)
    if not ethernet:
        return bytes(ip)
    return bytes(dpkt.ethernet.Ethernet(src=macs[0], dst=macs[1], type=dpkt.ethernet.ETH_TYPE_IP, data=ip))


@st.composite
def pcapng_capture(draw, messages):
    """A pcapng capture (raw-IP or Ethernet link type) whose TCP payloads are `messages`, with an optional 4-byte trailer on
    responses (mssim), and runt (< 10 bytes) / empty packets interleaved."""
    import dpkt

    ethernet = draw(st.booleans())
    f = io.BytesIO()
    # raw-IP captures declare LINKTYPE_IPV4 (228, what tpm2-tss' tcti-pcap writes), LINKTYPE_RAW (101) or the BSD DLT_RAW (12)
    w = dpkt.pcapng.Writer(f, linktype=dpkt.pcap.DLT_EN10MB if ethernet else draw(st.sampled_from([228, 101, dpkt.pcap.DLT_RAW])))
    # loopback frames have all-zero addresses; a capture from a network interface has any (the two directions swap them)
    macs = (b"\x00" * 6, b"\x00" * 6) if not ethernet or draw(st.booleans()) else (draw(st.binary(min_size=6, max_size=6)), draw(st.binary(min_size=6, max_size=6)))
    noise = {"runts": 0, "trailers": 0, "ethernet": ethernet, "mac_addresses": macs[0] != b"\x00" * 6}
    payloads = []  # every TCP payload written, in order (runts included)
    ts = 1.0
    for i, m in enumerate(messages):
        while draw(st.integers(0, 4)) == 0:
            n = draw(st.integers(0, 9))
            runt = draw(st.binary(min_size=n, max_size=n))
            if n >= 6 and draw(st.booleans()):
                # a runt whose own "size field" claims exactly its length (must be skipped all the same)
                runt = b"\x80\x01" + n.to_bytes(4, "big") + runt[6:]
            w.writepkt(_frame(runt, ethernet, macs), ts=ts)
            payloads.append(runt)
            ts += 0.001
            noise["runts"] += 1
        payload = m
        if len(m) >= 10 and draw(st.integers(0, 2)) == 0:
            payload = m + draw(st.one_of(st.sampled_from([b"\x00\x00\x00\x00", b"\x00\x00\x00\x01"]), st.binary(min_size=1, max_size=8)))
            noise["trailers"] += 1
        w.writepkt(_frame(payload, ethernet, macs if i % 2 == 0 else macs[::-1]), ts=ts)
        payloads.append(payload)
        ts += 0.001
    noise["carried"] = b"".join(pcapng_trim(p) for p in payloads)
    return f.getvalue(), noise


def pcapng_trim(payload):
    """What a capture carries for one TCP payload: nothing for runts (< 10 bytes), else the payload cut to its own size field."""
    if len(payload) < 10:
        return b""
    size = int.from_bytes(payload[2:6], "big")
    return payload[:size] if size != len(payload) else payload
