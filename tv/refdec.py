"""Reference decoder: an independent interpretation of the pinned layout (tv.layout) for arbitrary bytes.

It is written from the property statements (C01, C03, C04, C05, C13), not from the decoder's code, and
never imports tpmstream.  For a byte string, a type name (plus command code / encryption flag for a
Response) it returns

  * the events a conforming strict decoder emits before it stops (tuples (path, type name, value)),
  * the *set* of acceptable ways to stop (accepted, or an error class with all its details and the
    bytes that must be reported as remaining),
  * how many of the trailing zero-width events are optional (DESIGN.md D-2, D-3),
  * the byte span of every primitive event.

Where the statements do not determine a single answer the model returns several (D-1, D-4) or says
"undefined" (the layout becomes unknowable: selector without member, encryption requested for a
parameter area without a leading TPM2B, session attributes contradicting the expected encryption).

Strict order per primitive field, in wire order:
   region look-ahead (exceeded; field not consumed, rest of the violated region consumed)
 → bytes available (depleted)
 → value validity (value error; field consumed, no event)
 → event
 → if it is a size field: anticipation against every enclosing open region, then the region opens
 → at the end of a region: subceeded
 → at the end of the requested type: superfluous.
"""
from .layout import list_elem

ELLIPSIS = "..."
ENC = "#enc"  # suffix of the type name of a parameter area decoded with an opaque first parameter

SESSIONS = 0x8002
ATTR_DECRYPT = 0x20
ATTR_ENCRYPT = 0x40


class Stop(Exception):
    def __init__(self, outcomes, min_events=None):
        self.outcomes = outcomes
        self.min_events = min_events


class Region:
    __slots__ = ("path", "max", "start", "depth")

    def __init__(self, path, size_max, start):
        self.path = path
        self.max = size_max
        self.start = start


class Result:
    def __init__(self):
        self.events = []  # (path, typename, value|"...")
        self.spans = {}  # event index -> (offset, width)
        self.outcomes = None  # list of dicts, kind in ok/depleted/superfluous/value/exceeded/subceeded/anticipated/undefined
        self.min_events = 0
        self.regions = []  # every region opened: dict(path, max, start, size_event_index)
        self.unions = []  # (union type, member) reached
        self.lists = []  # (list type expr, length)

    @property
    def accepted(self):
        return len(self.outcomes) == 1 and self.outcomes[0]["kind"] == "ok"

    @property
    def kinds(self):
        return sorted({o["kind"] for o in self.outcomes})


def child(path, name):
    return f"{path}.{name}"


def indexed(path, i):
    return f"{path}[{i}]"


class RefDecoder:
    MAX_ZERO_WIDTH_ELEMS = 4096

    def __init__(self, layout, data, check_values=True, root=""):
        self.root = root
        self.L = layout
        self.data = bytes(data)
        self.pos = 0
        self.res = Result()
        self.open = []  # open regions, in the order they were opened (outermost first)
        self.command_code = None
        self.last_prim_events = 0  # number of events up to and including the last primitive event
        self.check_values = check_values
        self.value_faults = []  # (event index, path, typename, value) when check_values is False

    # -- outcome constructors ---------------------------------------------
    def _rest(self, pos=None):
        return self.data[self.pos if pos is None else pos :]

    def _depleted(self):
        return {"kind": "depleted", "command_code": self.command_code}

    def _stop(self, outcomes, min_events=None):
        if min_events is None:
            min_events = self.last_prim_events
        raise Stop(outcomes, min_events)

    # -- primitives and regions -------------------------------------------
    def prim(self, path, tname):
        L, res = self.L, self.res
        w = L.width(tname)
        violated = [r for r in self.open if (self.pos - r.start) + w > r.max]
        if violated:
            outs = []
            for r in violated:
                already = self.pos - r.start
                k = max(0, r.max - already)  # nothing can be un-read when the region is already overrun
                exc = {
                    "kind": "exceeded",
                    "constraint_path": r.path,
                    "size_max": r.max,
                    "size_already": already,
                    "violator_path": path,
                    "exceeded_by": already + w - r.max,
                }
                if self.pos + k <= len(self.data):
                    exc["remaining"] = self._rest(self.pos + k)
                    exc["consumed"] = k
                    outs.append(exc)
                else:
                    # the tail of the overrun region is itself truncated (D-4)
                    exc["remaining"] = b""
                    exc["consumed"] = len(self.data) - self.pos
                    outs.append(exc)
                    outs.append(self._depleted())
            self._stop(outs, min_events=len(res.events))
        if self.pos + w > len(self.data):
            self._stop([self._depleted()])
        v = int.from_bytes(self.data[self.pos : self.pos + w], "big", signed=L.signed(tname))
        start = self.pos
        self.pos += w
        if not L.contains(tname, v):
            if self.check_values:
                self._stop(
                    [
                        {
                            "kind": "value",
                            "constraint_path": path,
                            "type": tname,
                            "value": v,
                            "remaining": self._rest(),
                            "offset": start,
                            "width": w,
                        }
                    ],
                    min_events=len(res.events),
                )
            self.value_faults.append((len(res.events), path, tname, v))
        res.spans[len(res.events)] = (start, w)
        res.events.append((path, tname, v))
        self.last_prim_events = len(res.events)
        return v

    def open_region(self, path, size, start=None):
        """`size` was just read from the size field at `path`; anticipate, then open the region."""
        res = self.res
        if start is None:
            start = self.pos
            outs = []
            for r in self.open:
                already = self.pos - r.start
                if already + size > r.max:
                    outs.append(
                        {
                            "kind": "anticipated",
                            "constraint_path": r.path,
                            "size_max": r.max,
                            "size_already": already,
                            "violator_path": path,
                            "violator_value": size,
                            "exceeded_by": already + size - r.max,
                            "remaining": self._rest(),
                        }
                    )
            if outs:
                # the size field itself is complete and valid; its event may or may not count as "preceding" (D-2)
                self._stop(outs, min_events=len(res.events) - 1)
        r = Region(path, size, start)
        self.open.append(r)
        res.regions.append({"path": path, "max": size, "start": start, "size_event": len(res.events) - 1})
        return r

    def close_region(self, r):
        already = self.pos - r.start
        self.open.remove(r)
        if already != r.max:
            self._stop(
                [
                    {
                        "kind": "subceeded",
                        "constraint_path": r.path,
                        "size_max": r.max,
                        "size_already": already,
                        "remaining": self._rest(),
                    }
                ],
                min_events=len(self.res.events),
            )

    def struct_event(self, path, tname):
        self.res.events.append((path, tname, ELLIPSIS))

    def undefined(self, why):
        self._stop([{"kind": "undefined", "why": why}], min_events=0)

    # -- walkers -----------------------------------------------------------
    def walk(self, texpr, path, selector=None, count=None):
        kind = self.L.kind(texpr)
        if kind == "prim":
            return self.prim(path, texpr)
        if kind == "tpm2b":
            return self.tpm2b(texpr, path)
        if kind == "union":
            return self.union(texpr, path, selector)
        if kind == "list":
            return self.array(texpr, path, count)
        if kind == "struct":
            return self.struct(texpr, path)
        if kind == "Command":
            return self.command(path)
        raise AssertionError(f"cannot walk {texpr}")

    def struct(self, tname, path, enc=False):
        L = self.L
        s = L.struct(tname)
        flds = [list(f) for f in s["fields"]]
        if enc and (not flds or not flds[0][1].startswith("TPM2B")):
            # nothing can be encrypted without a leading TPM2B: the area is decoded as it is
            enc = False
        if enc:
            flds[0][1] = "TPM2B_ENCRYPTED_PARAM"
        self.struct_event(path, tname + (ENC if enc else ""))
        selectors = s.get("selectors", {})
        values = {}
        last_scalar = None
        for fname, ftype in flds:
            fpath = child(path, fname)
            if list_elem(ftype):
                if not isinstance(last_scalar, int):
                    self.undefined("list without a preceding integer count")
                self.array(ftype, fpath, last_scalar)
                continue
            if fname in selectors:
                sel = values.get(selectors[fname])
                self.union(ftype, fpath, sel)
                last_scalar = "struct"
                continue
            v = self.walk(ftype, fpath)
            values[fname] = v
            last_scalar = v if isinstance(v, int) else "struct"
        return None

    def array(self, texpr, path, count):
        elem = list_elem(texpr)
        self.res.events.append((path, texpr, ELLIPSIS))
        self.res.lists.append((texpr, count))
        zero_guard = 0
        for i in range(count):
            before = self.pos
            self.walk(elem, indexed(path, i))
            if self.pos == before:
                zero_guard += 1
                if zero_guard > self.MAX_ZERO_WIDTH_ELEMS:
                    self.undefined("unbounded list of zero-width elements")
        return None

    def tpm2b(self, tname, path):
        s = self.L.struct(tname)
        (size_name, size_type), (buf_name, buf_type) = s["fields"]
        self.struct_event(path, tname)
        size_path = child(path, size_name)
        size = self.prim(size_path, size_type)
        r = self.open_region(size_path, size)
        buf_path = child(path, buf_name)
        if list_elem(buf_type):
            self.array(buf_type, buf_path, size)
        elif size == 0:
            self.res.events.append((buf_path, buf_type, ELLIPSIS))
        else:
            self.walk(buf_type, buf_path)
        self.close_region(r)
        return None

    def union(self, tname, path, selector):
        u = self.L.struct(tname)
        self.struct_event(path, tname)
        member = self.L.select(tname, selector)
        if member is None:
            self.undefined(f"selector {selector} selects no member of {tname}")
        self.res.unions.append((tname, member))
        mtype = self.L.field_type(tname, member)
        if mtype == "None":
            return None
        mpath = child(path, member)
        if list_elem(mtype):
            sizes = u.get("list_size", {})
            if member not in sizes:
                self.undefined(f"list-valued union member {tname}.{member} without fixed length")
            self.array(mtype, mpath, sizes[member])
        else:
            self.walk(mtype, mpath)
        return None

    def _sized_area(self, path, texpr, region, start_of_region):
        """A list of structures that fills a region measured in bytes."""
        elem = list_elem(texpr)
        self.res.events.append((path, texpr, ELLIPSIS))
        attrs = []
        i = 0
        while (self.pos - region.start) < region.max:
            before_events = len(self.res.events)
            self.struct(elem, indexed(path, i))
            for p, t, v in self.res.events[before_events:]:
                if t == "TPMA_SESSION":
                    attrs.append(v)
            i += 1
        self.res.lists.append((texpr, i))
        return attrs

    def _ftype(self, msg, fname):
        for n, t in self.L.framing[msg]["fields"]:
            if n == fname:
                return t
        raise KeyError(fname)

    def command(self, path):
        L = self.L
        start = self.pos
        self.struct_event(path, "Command")
        tag = self.prim(child(path, "tag"), self._ftype("Command", "tag"))
        size_path = child(path, "commandSize")
        size = self.prim(size_path, self._ftype("Command", "commandSize"))
        rc = self.open_region(size_path, size, start=start)
        cc = self.prim(child(path, "commandCode"), self._ftype("Command", "commandCode"))
        if path == self.root:
            self.command_code = cc
        if cc not in L.cc_by_code:
            self.undefined("valid command code without layout")
        name, entry = L.cc_by_code[cc]
        self.struct(entry["command_handles"], child(path, "handles"))
        attrs = []
        if tag == SESSIONS:
            asz_path = child(path, "authSize")
            asz = self.prim(asz_path, self._ftype("Command", "authSize"))
            ra = self.open_region(asz_path, asz)
            attrs = self._sized_area(child(path, "authorizationArea"), self._ftype("Command", "authorizationArea"), ra, ra.start)
            self.close_region(ra)
        enc = any(a & ATTR_DECRYPT for a in attrs)
        self.struct(entry["command_params"], child(path, "parameters"), enc=enc)
        self.close_region(rc)
        return cc, any(a & ATTR_ENCRYPT for a in attrs)

    def response(self, path, cc, enc):
        L = self.L
        start = self.pos
        self.struct_event(path, "Response")
        tag = self.prim(child(path, "tag"), self._ftype("Response", "tag"))
        size_path = child(path, "responseSize")
        size = self.prim(size_path, self._ftype("Response", "responseSize"))
        rr = self.open_region(size_path, size, start=start)
        code = self.prim(child(path, "responseCode"), self._ftype("Response", "responseCode"))
        if code == 0:
            if cc not in L.cc_by_code:
                if not self.check_values:
                    self.undefined("response for an unknown command code")
                # a reserved / unknown command code is an out-of-range value (C04); it is not on the wire of a response, so
                # the error names the message itself, consumes nothing, and comes when the layout is first needed
                self._stop(
                    [{"kind": "value", "constraint_path": path, "type": "TPM_CC", "value": cc, "remaining": self._rest(), "offset": self.pos, "width": 0}],
                    min_events=len(self.res.events),
                )
            name, entry = L.cc_by_code[cc]
            self.struct(entry["response_handles"], child(path, "handles"))
            rp = None
            if tag == SESSIONS:
                ps_path = child(path, "parameterSize")
                ps = self.prim(ps_path, self._ftype("Response", "parameterSize"))
                rp = self.open_region(ps_path, ps)
            self.struct(entry["response_params"], child(path, "parameters"), enc=bool(enc))
            if rp is not None:
                self.close_region(rp)
            if tag == SESSIONS:
                attrs = self._sized_area(
                    child(path, "authorizationArea"), self._ftype("Response", "authorizationArea"), rr, start
                )
                actual = any(a & ATTR_ENCRYPT for a in attrs)
                if actual != bool(enc):
                    # session attributes contradict the expected response encryption: a constraint error of its own
                    self._stop(
                        [{"kind": "encmismatch", "expected": bool(enc), "actual": actual, "remaining": self._rest()}],
                        min_events=len(self.res.events),
                    )
        self.close_region(rr)

    def stream(self, path):
        n = 0
        while True:
            if self.pos == len(self.data):
                return n
            cc, enc = self.command(path)
            n += 1
            if self.pos == len(self.data):
                return n
            self.response(path, cc, enc)
            n += 1


def ref_decode(layout, tname, data, command_code=None, enc=False, check_values=True, root=""):
    """Decode `data` as `tname` with the reference model.  Returns a Result.  `root` is the string form of the caller's root path."""
    d = RefDecoder(layout, data, check_values=check_values, root=root)
    res = d.res
    try:
        if tname == "CommandResponseStream":
            d.stream(root)
        elif tname == "Command":
            d.command(root)
        elif tname == "Response":
            d.response(root, command_code, enc)
        else:
            d.walk(tname, root)
        if tname != "CommandResponseStream" and d.pos < len(d.data):
            d._stop(
                [{"kind": "superfluous", "remaining": d._rest(), "command_code": d.command_code}],
                min_events=len(res.events),
            )
        res.outcomes = [{"kind": "ok"}]
        res.min_events = len(res.events)
    except Stop as s:
        res.outcomes = s.outcomes
        res.min_events = max(0, s.min_events)
    res.consumed = d.pos
    res.command_code = d.command_code
    res.value_faults = d.value_faults
    return res
