"""tv: property-based verification machinery for joholl/tpmstream (see /verif/DESIGN.md)."""
