"""Entry point of the python -O lane (see runner.start_olane): python -O -m tv.olane <module> <prop> <tier> <seed> <nshards> <out>."""
import sys

from tv import runner

if __name__ == "__main__":
    runner.olane_main(sys.argv[1:])
