"""C08's tiling predicate over a warn-mode event stream (needs no knowledge of the layout beyond field widths).

A cursor walks the input.  Each primitive event's bytes must be the next input bytes.  A value warning directly follows its
offending event; an anticipated warning moves nothing and names the size field just shown; an exceeded or subceeded warning
moves the cursor exactly to region_start(path) + size_max of the size field it names (region start = start of the message for
commandSize / responseSize, else the offset just after that size field's own event) - or leaves it where it is when that end
lies before the bytes already shown; a subceeded warning's end lies strictly ahead; a superfluous warning is last and lists
exactly input[cursor:]; a depleted warning is last; otherwise the cursor ends at len(input).
"""
from .refdec import ELLIPSIS

MESSAGE_SIZE_FIELDS = {".commandSize", ".responseSize"}


def check_tiling(L, data, obs):
    """Returns None if the observation tiles `data`, else (signature suffix, message).  obs: tv.observe.Observation (warn mode)."""
    cursor = 0
    msg_start = 0
    after = {}  # path of a primitive event -> cursor just after it (latest occurrence)
    warnings = dict(obs.warnings)
    anticipated = set()  # size fields whose overrun was announced by an anticipated warning
    n = len(obs.events)
    prev_prim = None  # (path, type, value) of the directly preceding event if it was a primitive
    for i, ev in enumerate(obs.events):
        if ev[0] == "!warning":
            w = warnings[i]
            kind = w["kind"]
            if kind == "value":
                if prev_prim is None or prev_prim[0] != w["constraint_path"] or prev_prim[2] != w["value"]:
                    return ("value-warning-position", f"event {i}: value warning for {w['constraint_path']}={w['value']} does not directly follow its offending event (previous: {prev_prim})")
            elif kind == "anticipated":
                if prev_prim is None or prev_prim[0] != w["violator_path"] or prev_prim[2] != w["violator_value"]:
                    return ("anticipated-position", f"event {i}: anticipated warning names {w['violator_path']}={w['violator_value']} but follows {prev_prim}")
                anticipated.add(w["constraint_path"])
            elif kind in ("exceeded", "subceeded"):
                p = w["constraint_path"]
                if p in MESSAGE_SIZE_FIELDS:
                    start = msg_start
                elif p in after:
                    start = after[p]
                else:
                    return ("unknown-region", f"event {i}: {kind} warning names {p}, which was never shown as a field")
                end = start + w["size_max"]
                if end > len(data):
                    # the declared end lies beyond the input: skipping runs out of bytes, which must be the next (last) report
                    if i + 2 != n or warnings.get(i + 1, {}).get("kind") != "depleted":
                        return ("region-end-beyond-input", f"event {i}: {kind} warning for {p}={w['size_max']} declares the region end {end} beyond the input ({len(data)} bytes) but no depleted warning follows")
                    cursor = len(data)
                elif end > cursor:
                    cursor = end
                elif end == cursor and kind == "subceeded":
                    return ("subceeded-not-short", f"event {i}: subceeded warning for {p} although the region ends exactly at the cursor {cursor}")
                elif end < cursor and not (p in anticipated or (kind == "exceeded" and p in MESSAGE_SIZE_FIELDS)):
                    # nothing can be un-read; legitimate only if the overrun of this region was announced (anticipated) before,
                    # or the message header alone overruns a tiny commandSize/responseSize
                    return (f"{kind}-behind-cursor", f"event {i}: {kind} warning for {p} with declared end {end} behind the cursor {cursor} and no earlier anticipated warning for it")
            elif kind == "superfluous":
                if i != n - 1:
                    return ("superfluous-not-last", f"event {i}: superfluous warning followed by further events")
                if w["remaining"] != data[cursor:] or not w["remaining"]:
                    return ("superfluous-bytes", f"event {i}: superfluous warning lists {w['remaining'].hex()}, unread input is {data[cursor:].hex()}")
                cursor = len(data)
            elif kind == "depleted":
                if i != n - 1:
                    return ("depleted-not-last", f"event {i}: depleted warning followed by further events")
                cursor = len(data)
            elif kind == "encmismatch":
                pass  # parameter-encryption mismatch: moves nothing
            else:
                return ("unknown-warning", f"event {i}: {w}")
            prev_prim = None
            continue
        if ev[0] == "!other":
            return ("foreign-event", f"event {i} is neither a field event nor a WarningEvent: {ev[1][:160]}")
        path, t, v = ev
        if v == ELLIPSIS:
            if path == "" and t in ("Command", "Response"):
                msg_start = cursor
                anticipated.clear()
            prev_prim = None
            continue
        if not L.is_prim(t):
            return ("unknown-type", f"event {i}: primitive event of unknown type {t}")
        w_ = L.width(t)
        try:
            enc = int(v).to_bytes(w_, "big", signed=L.signed(t))
        except OverflowError:
            return ("value-width", f"event {i}: value {v} does not fit the declared width of {t}")
        if data[cursor : cursor + w_] != enc:
            return ("field-bytes", f"event {i}: field {path} ({t}) = {enc.hex()} but the next input bytes at offset {cursor} are {data[cursor:cursor + w_].hex() or '<none>'}")
        cursor += w_
        after[path] = cursor
        prev_prim = (path, t, v)
    if cursor != len(data):
        return ("bytes-unaccounted", f"decoding ended at offset {cursor} of {len(data)} without reporting the rest")
    return None
