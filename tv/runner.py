"""Runner: shards, seeds, collect-then-shrink, known findings, replay files, evidence.

Exit codes of a check: 0 property held on everything explored (known findings are printed),
1 violation (prints `VIOLATION property=<id> replay=<path>`), 2 harness error / inconclusive.
"""
import hashlib
import json
import multiprocessing as mp
import os
import sys
import time
import traceback

import hypothesis
from hypothesis import HealthCheck, Phase, given, settings

VERIF = os.path.dirname(os.path.dirname(os.path.abspath(__file__)))
EVIDENCE_DIR = os.environ.get("VERIF_EVIDENCE_DIR") or os.path.join(VERIF, "evidence")
REPLAY_DIR = os.environ.get("VERIF_REPLAY_DIR") or os.path.join(VERIF, "replays")
KNOWN_PATH = os.path.join(VERIF, "known_findings.json")
NSHARDS = int(os.environ.get("VERIF_SHARDS", "16"))


class CheckFailure(AssertionError):
    """Raised inside a property when an oracle is violated by an unlisted signature."""

    def __init__(self, signature, message, payload):
        super().__init__(f"{signature}: {message}")
        self.signature = signature
        self.message = message
        self.payload = payload


class HarnessError(Exception):
    pass


def derive_seed(seed, *parts):
    h = hashlib.sha256(("/".join(str(p) for p in (seed,) + parts)).encode()).digest()
    return int.from_bytes(h[:6], "big")


def load_known(prop):
    if not os.path.exists(KNOWN_PATH):
        return {}
    with open(KNOWN_PATH) as f:
        data = json.load(f)
    out = {}
    for e in data.get("findings", []):
        if e.get("status", "open") == "open" and e["property"] == prop:
            out[e["signature"]] = e
    return out


def jsonable(x):
    if isinstance(x, (bytes, bytearray)):
        return {"hex": bytes(x).hex()}
    if isinstance(x, dict):
        return {str(k): jsonable(v) for k, v in x.items()}
    if isinstance(x, (list, tuple, set, frozenset)):
        return [jsonable(v) for v in (sorted(x, key=repr) if isinstance(x, (set, frozenset)) else x)]
    if isinstance(x, (str, int, float, bool)) or x is None:
        return x
    return repr(x)


def unjson(x):
    if isinstance(x, dict):
        if set(x) == {"hex"}:
            return bytes.fromhex(x["hex"])
        return {k: unjson(v) for k, v in x.items()}
    if isinstance(x, list):
        return [unjson(v) for v in x]
    return x


class Ctx:
    """Per-shard context handed to a check's run_shard()."""

    def __init__(self, prop, tier, seed, shard, nshards):
        self.prop = prop
        self.tier = tier
        self.seed = seed
        self.shard = shard
        self.nshards = nshards
        self.known = load_known(prop)
        self.evaluations = 0
        self.nontrivial = set()
        self.samples = []
        self.counters = {}
        self.sets = {}
        self.known_hits = {}
        self.failures = []  # dicts(signature, message, payload)
        self._last_failure = None
        self._given_index = 0
        self.max_samples = 4
        self.history = None  # name of the prelude this shard ran before its first case (history.py)

    # -- sizing ---------------------------------------------------------------
    def quick(self):
        return self.tier == "quick"

    def share(self, total):
        """This shard's share of `total` cases (at least 1)."""
        base, extra = divmod(total, self.nshards)
        return max(1, base + (1 if self.shard < extra else 0))

    def mine(self, seq):
        """This shard's slice of a deterministic sequence."""
        return [x for i, x in enumerate(seq) if i % self.nshards == self.shard]

    # -- bookkeeping ----------------------------------------------------------
    def case(self, key, nontrivial, sample=None):
        self.evaluations += 1
        if nontrivial:
            h = hashlib.blake2b(key if isinstance(key, bytes) else repr(key).encode(), digest_size=8).digest()
            self.nontrivial.add(h)
            if sample is not None and len(self.samples) < self.max_samples:
                self.samples.append(jsonable(sample))

    def count(self, label, n=1):
        self.counters[label] = self.counters.get(label, 0) + n

    def add(self, setname, item):
        self.sets.setdefault(setname, set()).add(item)

    def problem(self, signature, message, payload):
        """Report an oracle violation.  Known signatures are counted and tolerated; others abort the case."""
        if signature in self.known:
            self.known_hits[signature] = self.known_hits.get(signature, 0) + 1
            return False
        if self.history and isinstance(payload, dict):
            payload = dict(payload, _history=self.history)
            message = f"{message} [after the process had run the '{self.history}' prelude]"
        self._last_failure = {"signature": signature, "message": message, "payload": jsonable(payload)}
        raise CheckFailure(signature, message, payload)

    # -- hypothesis glue ------------------------------------------------------
    def run_given(self, strategy, body, max_examples, name=None, stateful=None):
        """Run `body(example)` over `strategy` with this shard's derived seed.  Returns False if it failed."""
        self._given_index += 1
        label = name or f"g{self._given_index}"
        phases = [Phase.explicit, Phase.generate, Phase.target]
        if not self.quick() or os.environ.get("VERIF_SHRINK") == "1":
            phases.append(Phase.shrink)
        st_settings = settings(
            max_examples=max(1, int(max_examples)),
            database=None,
            deadline=None,
            derandomize=False,
            report_multiple_bugs=False,
            suppress_health_check=list(HealthCheck),
            phases=phases,
            print_blob=False,
            verbosity=hypothesis.Verbosity.quiet,
        )
        s = derive_seed(self.seed, self.prop, self.shard, label)

        @hypothesis.seed(s)
        @st_settings
        @given(strategy)
        def test(example):
            body(example)

        self._last_failure = None
        try:
            test()
            return True
        except CheckFailure:
            self.failures.append(self._last_failure)
            return False
        except hypothesis.errors.HypothesisException as exc:
            if self._last_failure is not None:
                # e.g. Flaky raised around a genuine failure: keep the failure
                self.failures.append(self._last_failure)
                return False
            raise HarnessError(f"hypothesis error in {label}: {exc!r}") from exc
        except Exception as exc:  # noqa: BLE001
            self.failures.append(unexpected_exception(exc, label))
            return False

    def run_plain(self, fn, name="plain"):
        """Run a deterministic (enumerating) part of a check; same failure bookkeeping as run_given."""
        self._last_failure = None
        try:
            fn()
            return True
        except CheckFailure:
            self.failures.append(self._last_failure)
            return False
        except HarnessError:
            raise
        except Exception as exc:  # noqa: BLE001
            self.failures.append(unexpected_exception(exc, name))
            return False

    def guard(self, fn, signature_prefix, payload):
        """Call library code; any exception it raises is a violation (crash) with a stable signature."""
        try:
            return fn()
        except CheckFailure:
            raise
        except Exception as exc:  # noqa: BLE001
            from .observe import crash_signature

            sig = crash_signature(exc)
            self.problem(f"{signature_prefix}:crash:{sig['class']}@{sig['where']}", sig["message"], payload)
            return None

    def result(self):
        return {
            "evaluations": self.evaluations,
            "nontrivial": sorted(h.hex() for h in self.nontrivial),
            "samples": self.samples,
            "counters": self.counters,
            "sets": {k: sorted(v, key=repr) for k, v in self.sets.items()},
            "known_hits": self.known_hits,
            "failures": self.failures,
        }


def unexpected_exception(exc, label):
    tb = traceback.extract_tb(exc.__traceback__)
    in_lib = any("/tpmstream/" in fr.filename.replace("\\", "/") for fr in tb)
    text = "".join(traceback.format_exception(type(exc), exc, exc.__traceback__))[-3000:]
    if in_lib:
        from .observe import crash_signature

        sig = crash_signature(exc)
        return {"signature": f"unexpected:{sig['class']}@{sig['where']}", "message": text, "payload": {"label": label}}
    raise HarnessError(f"exception inside the harness ({label}):\n{text}")


def enter_contexts(mod, ctx):
    """Contexts a check opts into: MIX (deliveries, see context.py) and HISTORY (what the process did before, see history.py)."""
    if getattr(mod, "MIX", False):
        from . import observe

        observe.mix(True, getattr(mod, "MIX_EXCLUDE", ()))
    if getattr(mod, "HISTORY", False):
        from . import history

        ctx.history = history.prelude_for(ctx.shard)
        if ctx.history:
            history.run(ctx.history)
            ctx.count(f"history:{ctx.history}")


def leave_contexts(mod, ctx):
    if getattr(mod, "MIX", False):
        from . import observe

        for k, v in observe.DELIVERIES.items():
            ctx.count(f"delivery:{k}", v)


def _worker(args):
    modname, prop, tier, seed, shard, nshards = args
    try:
        import importlib

        mod = importlib.import_module(modname)
        ctx = Ctx(prop, tier, seed, shard, nshards)
        enter_contexts(mod, ctx)
        mod.run_shard(ctx)
        leave_contexts(mod, ctx)
        return {"shard": shard, "ok": True, **ctx.result()}
    except HarnessError as exc:
        return {"shard": shard, "ok": False, "error": str(exc)}
    except BaseException as exc:  # noqa: BLE001
        return {"shard": shard, "ok": False, "error": "".join(traceback.format_exception(type(exc), exc, exc.__traceback__))[-4000:]}


OLANE_SHARDS = 2


def start_olane(mod, tier, seed, nshards):
    """Checks with OLANE = True additionally run OLANE_SHARDS shards (with a seed of their own) in an interpreter started with
    -O: assert statements of the library are compiled out there (optimised / packaged installs), and the property still has to hold."""
    if not getattr(mod, "OLANE", False) or os.environ.get("VERIF_NO_OLANE") == "1":
        return None
    import subprocess
    import tempfile

    fd, out = tempfile.mkstemp(prefix="tv-olane-", suffix=".json")
    os.close(fd)
    cmd = [sys.executable, "-O", "-m", "tv.olane", mod.__name__, mod.ID, tier, str(seed), str(nshards), out]
    env = dict(os.environ, PYTHONHASHSEED="0")
    return subprocess.Popen(cmd, cwd=VERIF, env=env, stdout=subprocess.DEVNULL, stderr=subprocess.PIPE, text=True), out


def finish_olane(olane, timeout):
    import subprocess

    proc, out = olane
    try:
        try:
            _, err = proc.communicate(timeout=timeout)
        except subprocess.TimeoutExpired:
            proc.kill()
            return None
        try:
            with open(out) as f:
                results = json.load(f)
        except Exception:  # noqa: BLE001
            return [{"shard": "O", "ok": False, "error": f"the python -O lane produced no result (exit {proc.returncode}): {err[-2000:]}"}]
        return results
    finally:
        if os.path.exists(out):
            os.unlink(out)


def olane_main(argv):
    """Entry point of the -O lane (python -O -m tv.olane <module> <prop> <tier> <seed> <nshards> <out>)."""
    modname, prop, tier, seed, nshards, out = argv
    if __debug__:
        raise SystemExit("the -O lane must run under python -O")
    seed_o = derive_seed(int(seed), "python -O")
    args = [(modname, prop, tier, seed_o, (i * 7 + 3) % int(nshards), int(nshards)) for i in range(OLANE_SHARDS)]
    with mp.get_context("fork").Pool(OLANE_SHARDS) as pool:
        results = pool.map(_worker, args, chunksize=1)
    for r in results:
        r["shard"] = f"O{r['shard']}"
        for f in r.get("failures", []):
            f["message"] = "[interpreter started with -O] " + f["message"]
            if isinstance(f.get("payload"), dict):
                f["payload"]["_python_O"] = True
        if r.get("ok"):
            r["counters"] = {**r["counters"], "python-O-lane:shards": 1, "python-O-lane:evaluations": r["evaluations"]}
    with open(out, "w") as f:
        json.dump(results, f)


def write_replay(prop, failure):
    d = os.path.join(REPLAY_DIR, prop)
    os.makedirs(d, exist_ok=True)
    blob = json.dumps(failure, sort_keys=True).encode()
    name = hashlib.sha256(blob).hexdigest()[:16] + ".json"
    path = os.path.join(d, name)
    with open(path, "w") as f:
        json.dump({"property": prop, **failure}, f, indent=1, sort_keys=True)
    return path


def run_check(mod, tier, seed, nshards=NSHARDS):
    """Run a check module on all shards, merge, write evidence, print findings.  Returns the exit code."""
    prop = mod.ID
    t0 = time.time()
    limit_s = float(os.environ.get("VERIF_WALL_LIMIT", "7200" if tier == "thorough" else "1500"))
    args = [(mod.__name__, prop, tier, seed, i, nshards) for i in range(nshards)]
    ctx_mp = mp.get_context("fork")
    olane = start_olane(mod, tier, seed, nshards)
    with ctx_mp.Pool(nshards) as pool:
        async_res = pool.map_async(_worker, args, chunksize=1)
        try:
            results = async_res.get(timeout=limit_s)
        except mp.TimeoutError:
            pool.terminate()
            if olane:
                olane[0].kill()
            print(f"INCONCLUSIVE property={prop}: wall-clock guard of {limit_s}s hit (not a violation)")
            return 2
    if olane:
        extra_results = finish_olane(olane, max(60.0, limit_s - (time.time() - t0)))
        if extra_results is None:
            print(f"INCONCLUSIVE property={prop}: the python -O lane did not finish (not a violation)")
            return 2
        results = results + extra_results
    errors = [r for r in results if not r["ok"]]
    if errors:
        for r in errors:
            print(f"HARNESS-ERROR property={prop} shard={r['shard']}:\n{r['error']}", file=sys.stderr)
        return 2

    evaluations = sum(r["evaluations"] for r in results)
    nontrivial = set()
    samples = []
    counters = {}
    sets = {}
    known_hits = {}
    failures = []
    for r in results:
        nontrivial.update(r["nontrivial"])
        for s in r["samples"]:
            if len(samples) < 8:
                samples.append(s)
        for k, v in r["counters"].items():
            counters[k] = counters.get(k, 0) + v
        for k, v in r["sets"].items():
            sets.setdefault(k, set()).update(map(_hashable, v))
        for k, v in r["known_hits"].items():
            known_hits[k] = known_hits.get(k, 0) + v
        failures.extend(r["failures"])

    post = getattr(mod, "finalize", None)
    extra = {}
    if post is not None:
        extra = post({"counters": counters, "sets": sets, "tier": tier, "evaluations": evaluations}) or {}
        if extra.get("harness_error"):
            print(f"HARNESS-ERROR property={prop}: {extra['harness_error']}", file=sys.stderr)
            return 2

    # distinct failures by signature
    by_sig = {}
    for f in failures:
        by_sig.setdefault(f["signature"], f)

    coverage = {
        "evaluations": evaluations,
        "distinct_nontrivial": len(nontrivial),
        "rule": mod.RULE,
        "samples": samples,
        "counters": dict(sorted(counters.items())),
    }
    for k, v in sets.items():
        vals = sorted(v, key=repr)
        coverage[f"n_{k}"] = len(vals)
        if len(vals) <= 40:
            coverage[k] = [list(x) if isinstance(x, tuple) else x for x in vals]
    if getattr(mod, "EXHAUSTIVE", None):
        coverage["exhaustive"] = bool(mod.EXHAUSTIVE if not callable(mod.EXHAUSTIVE) else mod.EXHAUSTIVE(tier))
    coverage.update(extra.get("coverage", {}))
    coverage["excluded_known"] = known_hits
    evidence = {
        "property_id": prop,
        "tier": tier,
        "seed": seed,
        "level": mod.LEVEL,
        "coverage": coverage,
        "assumptions": list(getattr(mod, "ASSUMPTIONS", [])),
        "wall_s": round(time.time() - t0, 2),
        "violations": len(by_sig),
    }
    os.makedirs(EVIDENCE_DIR, exist_ok=True)
    with open(os.path.join(EVIDENCE_DIR, f"{prop}.json"), "w") as f:
        json.dump(evidence, f, indent=1, sort_keys=True)

    for sig, entry in load_known(prop).items():
        seen = known_hits.get(sig, 0)
        print(f"KNOWN-FINDING: property={prop} {entry['description']} [signature {sig}; seen {seen}x in this run]")

    print(
        f"{prop} {tier}: evaluations={evaluations} distinct_nontrivial={len(nontrivial)} "
        f"violations={len(by_sig)} wall={evidence['wall_s']}s"
    )
    if by_sig:
        for sig, f in sorted(by_sig.items()):
            path = write_replay(prop, f)
            print(f"  signature: {sig}\n  message: {f['message'][:1500]}")
            print(f"VIOLATION property={prop} replay={path}")
        return 1
    return 0


def _hashable(v):
    if isinstance(v, list):
        return tuple(_hashable(x) for x in v)
    return v


def run_replay(mod, path):
    with open(path) as f:
        rec = json.load(f)
    prop = mod.ID
    ctx = Ctx(prop, "quick", 0, 0, 1)
    ctx.known = {}  # a replay shows the failure even if it is listed
    try:
        payload = unjson(rec["payload"])
        if isinstance(payload, dict) and payload.pop("_python_O", False) and __debug__:
            # found in the -O lane: replay under the same interpreter flags
            os.execve(sys.executable, [sys.executable, "-O", "-m", "tv.run", prop, "--replay", path], dict(os.environ, PYTHONHASHSEED="0"))
        if getattr(mod, "MIX", False):
            from . import observe

            observe.mix(True, getattr(mod, "MIX_EXCLUDE", ()))
        if isinstance(payload, dict) and payload.get("_history"):
            from . import history

            ctx.history = payload.pop("_history")
            history.run(ctx.history)
        mod.replay(ctx, payload)
    except CheckFailure as cf:
        print(f"  signature: {cf.signature}\n  message: {cf.message[:1500]}")
        print(f"VIOLATION property={prop} replay={path}")
        return 1
    except HarnessError as exc:
        print(f"HARNESS-ERROR {exc}", file=sys.stderr)
        return 2
    print(f"{prop}: replay {path} passes")
    return 0
