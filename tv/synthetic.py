"""Synthetic nested TPM2B / list / union types for exhaustive small-alphabet enumeration.

The decoder dispatches on attributes and naming conventions, so harness-defined types decode like specification types.
Each type is declared twice, independently: as a tpmstream class (what the decoder sees) and as a hand-written layout
entry (what the reference model sees)."""
from . import observe as O
from .layout import Layout

from tpmstream.spec.common.values import ValidValues, tpm_dataclass  # noqa: E402
from tpmstream.spec.structures.base_types import BYTE, UINT8  # noqa: E402


class SYN_R8(UINT8):
    _valid_values = ValidValues(range(0, 3))


class SYN_SEL(UINT8):
    _valid_values = ValidValues(range(0, 3))


@tpm_dataclass
class TPMS_SYN_INNER:
    a: SYN_R8
    count: UINT8
    items: list[UINT8]


@tpm_dataclass
class TPM2B_SYN_INNER:
    size: UINT8
    inner: TPMS_SYN_INNER


@tpm_dataclass
class TPM2B_SYN_BYTES:
    size: UINT8
    buffer: list[BYTE]


@tpm_dataclass
class TPMS_SYN_MID:
    first: TPM2B_SYN_INNER
    second: TPM2B_SYN_BYTES
    last: SYN_R8


@tpm_dataclass
class TPM2B_SYN_OUTER:
    size: UINT8
    mid: TPMS_SYN_MID


@tpm_dataclass
class TPML_SYN:
    count: UINT8
    items: list[TPM2B_SYN_BYTES]


@tpm_dataclass
class TPM2B_SYN_LIST:
    size: UINT8
    list: TPML_SYN


@tpm_dataclass
class TPMU_SYN:
    _selected_by = {"none": 0, "byte": 1, "buf": 2}
    none: None
    byte: UINT8
    buf: TPM2B_SYN_BYTES


@tpm_dataclass
class TPMT_SYN:
    _selectors = {"u": "sel"}
    sel: SYN_SEL
    u: TPMU_SYN
    tail: SYN_R8


@tpm_dataclass
class TPM2B_SYN_UNION:
    size: UINT8
    t: TPMT_SYN


@tpm_dataclass
class TPM2B_SYN_L3:
    size: UINT8
    mid: TPM2B_SYN_INNER


@tpm_dataclass
class TPM2B_SYN_DEEP:
    size: UINT8
    l3: TPM2B_SYN_L3


CLASSES = [SYN_R8, SYN_SEL, TPMS_SYN_INNER, TPM2B_SYN_INNER, TPM2B_SYN_BYTES, TPMS_SYN_MID, TPM2B_SYN_OUTER, TPML_SYN, TPM2B_SYN_LIST, TPMU_SYN, TPMT_SYN, TPM2B_SYN_UNION, TPM2B_SYN_L3, TPM2B_SYN_DEEP]
for _c in CLASSES:
    O.register_type(_c)

TOP_TYPES = ["TPM2B_SYN_OUTER", "TPM2B_SYN_LIST", "TPM2B_SYN_UNION", "TPM2B_SYN_DEEP"]


def _r8(name):
    return {
        "bases": ["UINT8", "_UINT", "_INT"], "width": 1, "signed": False, "kind": "valueset",
        "valid_items": [{"kind": "range", "lo": 0, "hi": 2}], "allowed": [[0, 2]],
    }


PRIMS = {"SYN_R8": _r8("SYN_R8"), "SYN_SEL": _r8("SYN_SEL")}
STRUCTS = {
    "TPMS_SYN_INNER": {"kind": "struct", "fields": [["a", "SYN_R8"], ["count", "UINT8"], ["items", "list[UINT8]"]]},
    "TPM2B_SYN_INNER": {"kind": "tpm2b", "fields": [["size", "UINT8"], ["inner", "TPMS_SYN_INNER"]]},
    "TPM2B_SYN_BYTES": {"kind": "tpm2b", "fields": [["size", "UINT8"], ["buffer", "list[BYTE]"]]},
    "TPMS_SYN_MID": {"kind": "struct", "fields": [["first", "TPM2B_SYN_INNER"], ["second", "TPM2B_SYN_BYTES"], ["last", "SYN_R8"]]},
    "TPM2B_SYN_OUTER": {"kind": "tpm2b", "fields": [["size", "UINT8"], ["mid", "TPMS_SYN_MID"]]},
    "TPML_SYN": {"kind": "struct", "fields": [["count", "UINT8"], ["items", "list[TPM2B_SYN_BYTES]"]]},
    "TPM2B_SYN_LIST": {"kind": "tpm2b", "fields": [["size", "UINT8"], ["list", "TPML_SYN"]]},
    "TPMU_SYN": {
        "kind": "union", "fields": [["none", "None"], ["byte", "UINT8"], ["buf", "TPM2B_SYN_BYTES"]],
        "selected_by": [["none", 0], ["byte", 1], ["buf", 2]], "selection": [[0, "none"], [1, "byte"], [2, "buf"]], "fallback": None,
    },
    "TPMT_SYN": {"kind": "struct", "fields": [["sel", "SYN_SEL"], ["u", "TPMU_SYN"], ["tail", "SYN_R8"]], "selectors": {"u": "sel"}},
    "TPM2B_SYN_UNION": {"kind": "tpm2b", "fields": [["size", "UINT8"], ["t", "TPMT_SYN"]]},
    "TPM2B_SYN_L3": {"kind": "tpm2b", "fields": [["size", "UINT8"], ["mid", "TPM2B_SYN_INNER"]]},
    "TPM2B_SYN_DEEP": {"kind": "tpm2b", "fields": [["size", "UINT8"], ["l3", "TPM2B_SYN_L3"]]},
}


def extended_layout(base=None):
    return (base or Layout.load()).extended(PRIMS, STRUCTS)


def strings(alphabet, max_len, shard, nshards):
    """All strings over `alphabet` of length 0..max_len, the ones this shard owns (round-robin on the index)."""
    import itertools

    i = 0
    for n in range(0, max_len + 1):
        for tup in itertools.product(alphabet, repeat=n):
            if i % nshards == shard:
                yield bytes(tup)
            i += 1
