"""Comparing an observation of the library (tv.observe) with the reference model's acceptable outcomes (tv.refdec)."""

DETAIL_FIELDS = {
    "ok": [],
    "depleted": ["command_code"],
    "superfluous": ["command_code", "remaining"],
    "value": ["constraint_path", "type", "value"],
    "exceeded": ["constraint_path", "size_max", "size_already", "violator_path", "exceeded_by"],
    "subceeded": ["constraint_path", "size_max", "size_already"],
    "encmismatch": ["expected", "actual"],
    "anticipated": ["constraint_path", "size_max", "size_already", "violator_path", "violator_value", "exceeded_by"],
}


def probe_points(L, tname, value):
    lo, hi = L.limits(tname)
    pts = {lo, hi, 0} | ({value} if isinstance(value, int) else set())  # (a response decoded without a command code: value None)
    for a, b in L.allowed(tname):
        pts.update((a - 1, a, a + 1, b - 1, b, b + 1))
    return sorted(p for p in pts if lo <= p <= hi)


def allowed_set_mismatch(L, tname, valid_values, value):
    """Membership probing of the allowed set carried by a value error against the snapshot's interval set."""
    for p in probe_points(L, tname, value):
        try:
            got = p in valid_values
        except Exception as exc:  # noqa: BLE001
            return f"probing {p} in the reported allowed set raised {exc!r}"
        if bool(got) != L.contains(tname, p):
            return f"reported allowed set says {p} in set = {got}, declared set says {L.contains(tname, p)}"
    return None


def _detail_diff(lib, ref, check_remaining):
    fields = list(DETAIL_FIELDS[ref["kind"]])
    if check_remaining and "remaining" in ref and "remaining" not in fields:
        fields.append("remaining")
    for f in fields:
        if f == "remaining" and not check_remaining and ref["kind"] != "superfluous":
            # the remaining bytes of a constraint error are C13's business; the surplus of a superfluous error is its substance
            continue
        if lib.get(f) != ref.get(f):
            return f
    return None


def judge_strict(L, obs, ref, check_remaining=False, check_allowed=True):
    """None if the observation is one of the model's acceptable strict outcomes, else (signature suffix, message).

    Undefined model outcomes (layout unknowable) accept any *documented* outcome."""
    lib = obs.outcome
    kinds = ref.kinds
    if lib["kind"] in ("crash", "runaway", "constraint-other"):
        return (f"crash:{lib.get('class')}@{lib.get('where')}", f"decoder failed internally (model: {'+'.join(kinds)}): {lib}")
    if kinds == ["undefined"]:
        return None
    cands = [o for o in ref.outcomes if o["kind"] == lib["kind"]]
    if not cands:
        return (f"{'+'.join(kinds)}->{lib['kind']}", f"decoder outcome {_brief(lib)}, model allows {[_brief(o) for o in ref.outcomes]}")
    # events: every model event up to min_events is required, nothing beyond the model's events is allowed
    n = len(obs.events)
    if n < ref.min_events or n > len(ref.events) or obs.events != ref.events[:n]:
        d = next((i for i, (a, b) in enumerate(zip(obs.events, ref.events)) if a != b), min(n, len(ref.events)))
        got = obs.events[d] if d < n else None
        exp = ref.events[d] if d < len(ref.events) else None
        return (
            f"{lib['kind']}:events",
            f"events before the outcome differ at {d}: decoder {got}, model {exp} (decoder emitted {n}, model requires {ref.min_events}..{len(ref.events)})",
        )
    diffs = []
    for o in cands:
        f = _detail_diff(lib, o, check_remaining)
        if f is None:
            diffs = None
            break
        diffs.append((f, o))
    if diffs:
        f, o = diffs[0]
        return (f"{lib['kind']}:detail:{f}", f"error detail {f}: decoder {_show(lib.get(f))}, model {_show(o.get(f))}; decoder {_brief(lib)}; model {_brief(o)}")
    if lib["kind"] == "value" and check_allowed and "_valid_values" in lib:
        m = allowed_set_mismatch(L, lib["type"], lib["_valid_values"], lib["value"])
        if m:
            return ("value:allowed-set", m)
    return None


def _show(v):
    return v.hex() if isinstance(v, (bytes, bytearray)) else v


def _brief(o):
    return {k: (_show(v) if k != "remaining" else (_show(v) if v is None or len(v) <= 24 else f"<{len(v)} bytes>")) for k, v in o.items() if not k.startswith("_") and k not in ("message", "offset", "width", "consumed")}
