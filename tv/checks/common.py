"""Shared pieces of the per-property checks."""
from dataclasses import fields as dc_fields

from .. import observe as O
from ..layout import Layout, list_elem
from ..refdec import ENC, ELLIPSIS, ref_decode
from ..runner import HarnessError

_LAYOUT = None


def layout():
    global _LAYOUT
    if _LAYOUT is None:
        _LAYOUT = Layout.load()
    return _LAYOUT


def case_payload(case):
    return {"type": case.type, "data": case.data, "cc": case.cc, "enc": bool(case.enc)}


def model_for_case(L, case):
    """Reference decode of a generated well-formed case; cross-checks generator against model (harness self-test)."""
    r = ref_decode(L, case.type, case.data, command_code=case.cc, enc=case.enc)
    if not r.accepted or r.events != case.events:
        diff = next((i for i, (a, b) in enumerate(zip(r.events, case.events)) if a != b), min(len(r.events), len(case.events)))
        raise HarnessError(
            f"generator and reference model disagree on a generated {case.type} ({case.data.hex()}): "
            f"model outcome {r.outcomes}, first difference at event {diff}: "
            f"model {r.events[diff] if diff < len(r.events) else None} vs builder {case.events[diff] if diff < len(case.events) else None}"
        )
    return r


def nontrivial_wellformed(case):
    m = case.meta
    if case.n_prims() >= 3:
        return True
    if any(n for _, n in m.get("lists", []) if n):
        return True
    if m.get("sessions"):
        return True
    return False


def first_diff(a, b):
    for i, (x, y) in enumerate(zip(a, b)):
        if x != y:
            return i
    if len(a) != len(b):
        return min(len(a), len(b))
    return None


def check_declared_types(L, obs, expected_events):
    """Every event's declared type is the library class registered under the expected name, and every
    value is an instance of exactly that class.  Returns None or (component, index, detail)."""
    for i, (ev, exp) in enumerate(zip(obs.raw, expected_events)):
        path, tname, v = exp
        t = ev.type
        elem = list_elem(tname)
        if elem is not None:
            if getattr(t, "__origin__", None) is not list or t.__args__[0] is not O.lib_type(elem):
                return ("type-identity", i, f"{path}: list type {t!r} is not list[{elem}]")
            continue
        if tname.endswith(ENC):
            base = tname[: -len(ENC)]
            want = [list(f) for f in L.struct(base)["fields"]]
            want[0][1] = "TPM2B_ENCRYPTED_PARAM"
            got = [[f.name, O.type_expr(f.type)] for f in dc_fields(t)]
            if got != want or t.__name__ != base:
                return ("encrypted-layout", i, f"{path}: synthesized type has fields {got}, expected {want}")
            continue
        if t is not O.lib_type(tname):
            return ("type-identity", i, f"{path}: declared type {t!r} is not the registered class {tname}")
        if v != ELLIPSIS:
            if type(ev.value) is not t:
                return ("value-class", i, f"{path}: value class {type(ev.value).__name__}, declared {tname}")
    return None
