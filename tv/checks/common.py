"""Shared pieces of the per-property checks."""
from dataclasses import fields as dc_fields

from .. import observe as O
from ..layout import Layout, list_elem
from ..refdec import ENC, ELLIPSIS, ref_decode
from ..runner import HarnessError

_LAYOUT = None


def layout():
    global _LAYOUT
    if _LAYOUT is None:
        _LAYOUT = Layout.load()
    return _LAYOUT


def case_payload(case):
    return {"type": case.type, "data": case.data, "cc": case.cc, "enc": bool(case.enc)}


def model_for_case(L, case):
    """Reference decode of a generated well-formed case; cross-checks generator against model (harness self-test)."""
    r = ref_decode(L, case.type, case.data, command_code=case.cc, enc=case.enc)
    if not r.accepted or r.events != case.events:
        diff = next((i for i, (a, b) in enumerate(zip(r.events, case.events)) if a != b), min(len(r.events), len(case.events)))
        raise HarnessError(
            f"generator and reference model disagree on a generated {case.type} ({case.data.hex()}): "
            f"model outcome {r.outcomes}, first difference at event {diff}: "
            f"model {r.events[diff] if diff < len(r.events) else None} vs builder {case.events[diff] if diff < len(case.events) else None}"
        )
    return r


def nontrivial_wellformed(case):
    m = case.meta
    if case.n_prims() >= 3:
        return True
    if any(n for _, n in m.get("lists", []) if n):
        return True
    if m.get("sessions"):
        return True
    return False


def first_diff(a, b):
    for i, (x, y) in enumerate(zip(a, b)):
        if x != y:
            return i
    if len(a) != len(b):
        return min(len(a), len(b))
    return None


def check_declared_types(L, obs, expected_events):
    """Every event's declared type is the library class registered under the expected name, and every
    value is an instance of exactly that class.  Returns None or (component, index, detail)."""
    for i, (ev, exp) in enumerate(zip(obs.raw, expected_events)):
        path, tname, v = exp
        t = ev.type
        elem = list_elem(tname)
        if elem is not None:
            if getattr(t, "__origin__", None) is not list or t.__args__[0] is not O.lib_type(elem):
                return ("type-identity", i, f"{path}: list type {t!r} is not list[{elem}]")
            continue
        if tname.endswith(ENC):
            base = tname[: -len(ENC)]
            want = [list(f) for f in L.struct(base)["fields"]]
            want[0][1] = "TPM2B_ENCRYPTED_PARAM"
            got = [[f.name, O.type_expr(f.type)] for f in dc_fields(t)]
            if got != want or t.__name__ != base:
                return ("encrypted-layout", i, f"{path}: synthesized type has fields {got}, expected {want}")
            continue
        if t is not O.lib_type(tname):
            return ("type-identity", i, f"{path}: declared type {t!r} is not the registered class {tname}")
        if v != ELLIPSIS:
            if type(ev.value) is not t:
                return ("value-class", i, f"{path}: value class {type(ev.value).__name__}, declared {tname}")
    return None


def wellformed_campaign(ctx, L, body, k, random_n, big=None, streams_n=0):
    """The standard search over well-formed encodings: deterministic coverage pass (all structure types, all ways to
    select a union arm, all command codes x session shapes x encryption x failure) followed by random cases."""
    from .. import gen

    big = (not ctx.quick()) if big is None else big
    for t in ctx.mine(L.non_union_types()):
        ctx.run_given(gen.structures(L, t), body, k, name=f"type:{t}")
    for sname, sf, v in ctx.mine(gen.selector_points(L)):
        ctx.run_given(gen.structures(L, sname, overrides={sf: v}), body, 1, name=f"arm:{sname}:{sf}:{v}")
    for cc in ctx.mine(sorted(L.commands)):
        for ns in (None, 0, 1, 2, 3):
            ctx.run_given(gen.commands(L, cc, sessions=ns), body, k, name=f"cmd:{cc}:{ns}")
            ctx.run_given(gen.responses(L, cc, sessions=ns, failed=False), body, k, name=f"rsp:{cc}:{ns}")
        ctx.run_given(gen.commands(L, cc, sessions=2, decrypt=True), body, k, name=f"cmd:{cc}:enc")
        ctx.run_given(gen.responses(L, cc, sessions=2, enc=True, failed=False), body, k, name=f"rsp:{cc}:enc")
        ctx.run_given(gen.responses(L, cc, failed=True), body, k, name=f"rsp:{cc}:failed")
    ctx.run_given(gen.messages(L, big=big), body, ctx.share(random_n), name="random")
    if streams_n:
        ctx.run_given(gen.streams(L, max_pairs=3 if ctx.quick() else 6, big=big), body, ctx.share(streams_n), name="streams")


def classify_wellformed(ctx, case):
    ctx.add("types", case.type if case.type not in ("Command", "Response") else f"{case.type}:{case.meta.get('cc_name')}")
    for u in case.meta.get("unions", []):
        ctx.add("union_arms", tuple(u))
    for t, n in case.meta.get("lists", []):
        ctx.add("list_lengths", n)
    for fl in case.meta.get("flags", []):
        ctx.count(f"flag:{fl}")
    if case.type in ("Command", "Response"):
        ctx.count(f"{case.type}:sessions={case.meta.get('sessions')}")
        if case.meta.get("decrypt") or case.enc:
            ctx.count(f"{case.type}:encrypted")
        if case.meta.get("failed"):
            ctx.count("Response:failed")


def coverage_finalize(merged, need_arms=True):
    from .. import gen

    L = layout()
    want = set(L.non_union_types())
    for cc in L.commands:
        want.add(f"Command:{cc}")
        want.add(f"Response:{cc}")
    missing = want - set(merged["sets"].get("types", ()))
    if missing:
        return {"harness_error": f"coverage pass never produced: {sorted(missing)[:10]}"}
    arms = {tuple(a) for a in gen.reachable_arms(L)}
    hit = {tuple(a) for a in merged["sets"].get("union_arms", ())}
    if need_arms and arms - hit:
        return {"harness_error": f"union arms never produced: {sorted(arms - hit)[:10]}"}
    return {"coverage": {"all_types_and_command_codes_covered": True, "reachable_union_arms": len(arms), "reachable_union_arms_hit": len(arms & hit)}}


class ReplayCase:
    """A Case rebuilt from a replay payload (bytes + arguments); expected events come from the reference model."""

    def __init__(self, L, payload):
        self.type, self.data, self.cc, self.enc = payload["type"], payload["data"], payload.get("cc"), bool(payload.get("enc"))
        self.meta = payload.get("meta") or {}
        r = ref_decode(L, self.type, self.data, command_code=self.cc, enc=self.enc)
        self.events = r.events
        self.spans = r.spans
        self._r = r

    def n_prims(self):
        return len(self.spans)

    def brief(self):
        return {"type": self.type, "hex": self.data.hex(), "command_code": self.cc, "enc": self.enc}


def fuzz_campaign(ctx, oracle, runs, max_len=512):
    """Thorough tiers: one atheris/libFuzzer campaign per shard with the property's oracle inside the target.

    Even shards start from an empty corpus, odd shards from repository packets.  libFuzzer campaigns are only approximately
    reproducible; the saved violation (signature + decoded arguments) is the reproducible unit and becomes the replay file."""
    import json
    import os
    import shutil
    import subprocess
    import sys
    import tempfile

    from ..runner import VERIF, derive_seed, unjson

    out = tempfile.mkdtemp(prefix=f"fuzz-{oracle}-{ctx.shard}-")
    try:
        cmd = [sys.executable, "-m", "tv.fuzz_target", "--oracle", oracle, "--out", out]
        if ctx.shard % 2:
            cmd.append("--seeded")
        cmd += [f"-runs={runs}", f"-seed={derive_seed(ctx.seed, oracle, ctx.shard, 'fuzz') % (2**31 - 1) + 1}", f"-max_len={max_len}", "-print_final_stats=0", "-verbosity=0", f"-artifact_prefix={out}/"]
        env = dict(os.environ, PYTHONHASHSEED="0")
        p = subprocess.run(cmd, cwd=VERIF, env=env, capture_output=True, text=True)
        stats = {}
        if os.path.exists(os.path.join(out, "stats.json")):
            with open(os.path.join(out, "stats.json")) as f:
                stats = json.load(f)
        if "No module named 'atheris'" in p.stderr or "cannot import name" in p.stderr and "atheris" in p.stderr:
            ctx.count("fuzz:atheris-unavailable")
            return
        ctx.count("fuzz:campaigns")
        ctx.count("fuzz:executions", stats.get("evaluations", 0))
        ctx.count("fuzz:nontrivial-executions", stats.get("nontrivial", 0))
        ctx.evaluations += stats.get("evaluations", 0)
        for k, v in stats.get("known_hits", {}).items():
            ctx.known_hits[k] = ctx.known_hits.get(k, 0) + v
        vpath = os.path.join(out, "violation.json")
        if os.path.exists(vpath):
            with open(vpath) as f:
                v = json.load(f)
            ctx.problem(v["signature"], "[found by the libFuzzer campaign] " + v["message"], unjson(v["payload"]))
        elif p.returncode != 0:
            from ..runner import HarnessError

            raise HarnessError(f"fuzz campaign failed without a violation file (exit {p.returncode}): {p.stderr[-1500:]}")
    finally:
        shutil.rmtree(out, ignore_errors=True)


def primitive_sweep(ctx, L, judge):
    """Every constrained primitive type on its own x every representative value that is NOT allowed (next to the allowed
    intervals, 0, the width limits, single bits, a high bit on a member, members of the base type the type leaves out and
    their neighbours) and every allowed interval end: `judge(type name, bytes, allowed?)`; stops at the first False."""
    constrained = [t for t in sorted(L.prims) if L.is_constrained(t)]
    for t in ctx.mine(constrained):
        w, signed = L.width(t), L.signed(t)
        vals = [(v, False) for v in L.outside_values(t) + L.far_outside_values(t)] + [(v, True) for lo, hi in L.allowed(t) for v in (lo, hi)]
        for v, ok in vals:
            ctx.count("primitive-sweep")
            if judge(t, int(v).to_bytes(w, "big", signed=signed), ok) is False:
                return
