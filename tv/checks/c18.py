"""C18 - response codes are classified and named by the TPM 2.0 format rules (exhaustive, independent re-implementation)."""
from .. import observe as O
from ..pretty import parse_row, strip_ansi
from .common import layout

ID = "C18"
LEVEL = "exploration"
HISTORY = True  # every second shard first runs a prelude of earlier library use (history.py)
EXHAUSTIVE = True
RULE = (
    "exhaustive: all 3072 values of the low 12 bits with bit 7 or bit 8 set, plus zero, each also with the reserved high bits "
    "0x1000, 0x80000000 and 0xFFFFF000 set (12292 codes). Oracle: an independent implementation of the TPM 2.0 Part 2 response "
    "code format rules with name tables written from the specification (not taken from the library): expected text form, "
    "class (success / format-one parameter|session|handle N / vendor-defined / warning / error), and for the bit rows: masks "
    "partition the 32-bit word, each row shows its bits at their positions, the rows' details carry the same class, number and name. "
    "Every non-zero code is non-trivial; distinct = distinct code."
)
ASSUMPTIONS = [
    "name tables (TPM 2.0 Part 2, Table 'TPM_RC') written from the specification; for numbers the specification leaves undefined any text is accepted that is not the name of a defined code",
    "zero with reserved high bits set reads as a TPM 1.2 code and is outside the statement (only crash-freedom and truthful bit rows are required there)",
]

# TPM 2.0 Part 2 - RC_VER1 (format-zero errors), RC_FMT1 (format-one errors), RC_WARN (warnings)
VER1 = {
    0x00: "INITIALIZE", 0x01: "FAILURE", 0x03: "SEQUENCE", 0x0B: "PRIVATE", 0x19: "HMAC", 0x20: "DISABLED", 0x21: "EXCLUSIVE",
    0x24: "AUTH_TYPE", 0x25: "AUTH_MISSING", 0x26: "POLICY", 0x27: "PCR", 0x28: "PCR_CHANGED", 0x2D: "UPGRADE",
    0x2E: "TOO_MANY_CONTEXTS", 0x2F: "AUTH_UNAVAILABLE", 0x30: "REBOOT", 0x31: "UNBALANCED", 0x42: "COMMAND_SIZE",
    0x43: "COMMAND_CODE", 0x44: "AUTHSIZE", 0x45: "AUTH_CONTEXT", 0x46: "NV_RANGE", 0x47: "NV_SIZE", 0x48: "NV_LOCKED",
    0x49: "NV_AUTHORIZATION", 0x4A: "NV_UNINITIALIZED", 0x4B: "NV_SPACE", 0x4C: "NV_DEFINED", 0x50: "BAD_CONTEXT",
    0x51: "CPHASH", 0x52: "PARENT", 0x53: "NEEDS_TEST", 0x54: "NO_RESULT", 0x55: "SENSITIVE",
}
FMT1 = {
    0x01: "ASYMMETRIC", 0x02: "ATTRIBUTES", 0x03: "HASH", 0x04: "VALUE", 0x05: "HIERARCHY", 0x07: "KEY_SIZE", 0x08: "MGF",
    0x09: "MODE", 0x0A: "TYPE", 0x0B: "HANDLE", 0x0C: "KDF", 0x0D: "RANGE", 0x0E: "AUTH_FAIL", 0x0F: "NONCE", 0x10: "PP",
    0x12: "SCHEME", 0x15: "SIZE", 0x16: "SYMMETRIC", 0x17: "TAG", 0x18: "SELECTOR", 0x1A: "INSUFFICIENT", 0x1B: "SIGNATURE",
    0x1C: "KEY", 0x1D: "POLICY_FAIL", 0x1F: "INTEGRITY", 0x20: "TICKET", 0x21: "RESERVED_BITS", 0x22: "BAD_AUTH",
    0x23: "EXPIRED", 0x24: "POLICY_CC", 0x25: "BINDING", 0x26: "CURVE", 0x27: "ECC_POINT",
}
WARN = {
    0x01: "CONTEXT_GAP", 0x02: "OBJECT_MEMORY", 0x03: "SESSION_MEMORY", 0x04: "MEMORY", 0x05: "SESSION_HANDLES",
    0x06: "OBJECT_HANDLES", 0x07: "LOCALITY", 0x08: "YIELDED", 0x09: "CANCELED", 0x0A: "TESTING",
    0x10: "REFERENCE_H0", 0x11: "REFERENCE_H1", 0x12: "REFERENCE_H2", 0x13: "REFERENCE_H3", 0x14: "REFERENCE_H4",
    0x15: "REFERENCE_H5", 0x16: "REFERENCE_H6", 0x18: "REFERENCE_S0", 0x19: "REFERENCE_S1", 0x1A: "REFERENCE_S2",
    0x1B: "REFERENCE_S3", 0x1C: "REFERENCE_S4", 0x1D: "REFERENCE_S5", 0x1E: "REFERENCE_S6", 0x20: "NV_RATE",
    0x21: "LOCKOUT", 0x22: "RETRY", 0x23: "NV_UNAVAILABLE", 0x7F: "NOT_USED",
}
ALL_NAMES = set(VER1.values()) | set(FMT1.values()) | set(WARN.values()) | {"SUCCESS"}


def classify(v):
    """(class, number N or None, name or None) by the format rules; v is the full 32-bit code."""
    low = v & 0xFFF
    if v == 0:
        return ("success", None, "SUCCESS")
    if low & 0x80:  # format one
        name = FMT1.get(low & 0x3F)
        if low & 0x40:
            return ("parameter", (low >> 8) & 0xF, name)
        if low & 0x800:
            return ("session", (low >> 8) & 0x7, name)
        return ("handle", (low >> 8) & 0x7, name)
    if not low & 0x100:
        return ("tpm12", None, None)
    if low & 0x400:
        return ("vendor", None, None)
    if low & 0x800:
        return ("warning", None, WARN.get(low & 0x7F))
    return ("error", None, VER1.get(low & 0x7F))


CLASS_TEXT = {"parameter": "Parameter No. {}", "session": "Session No. {}", "handle": "Handle No. {}"}


def check_code(ctx, v):
    from tpmstream.common.event import MarshalEvent
    from tpmstream.common.path import Path, PathNode
    from tpmstream.io.pretty import Pretty

    T = O.lib_type("TPM_RC")
    payload = {"value": v}
    cls, n, name = classify(v)
    in_domain = cls != "tpm12"
    ctx.case(v, v != 0 and in_domain, sample={"code": hex(v), "class": cls, "number": n, "name": name} if (v % 257 == 5) else None)
    ctx.count(f"class:{cls}")
    x = ctx.guard(lambda: T(v), "C18:construct", payload)
    if x is None:
        return
    texts = ctx.guard(lambda: (format(x, ""), str(x), f"{x}"), "C18:text", payload)
    if texts is None:
        return
    if v != 0 and any(t == "TPM_RC.SUCCESS" for t in texts):
        ctx.problem("C18:text:nonzero-success", f"TPM_RC({v:#x}) reads {texts[0]!r}: only zero is SUCCESS (the decoder treats this response as failed)", payload)
        return
    if in_domain:
        for which, text in zip(("format", "str", "fstring"), texts):
            bad = None
            if not text.startswith("TPM_RC."):
                bad = "does not start with TPM_RC."
            elif cls == "success":
                if text != "TPM_RC.SUCCESS":
                    bad = "zero must be TPM_RC.SUCCESS"
            elif cls in CLASS_TEXT:
                want_suffix = " (" + CLASS_TEXT[cls].format(n) + ")"
                if not text.endswith(want_suffix):
                    bad = f"must be attributed to{want_suffix}"
                else:
                    shown = text[len("TPM_RC.") : -len(want_suffix)]
                    if name is not None and shown != name:
                        bad = f"format-one error number {v & 0x3F:#x} is {name}"
                    elif name is None and shown in ALL_NAMES:
                        bad = f"error number {v & 0x3F:#x} is undefined but shown as {shown}"
            elif cls == "vendor":
                shown = text[len("TPM_RC.") :]
                if "endor" not in shown or shown.split(" ")[0] in ALL_NAMES:
                    bad = "vendor-defined code must be shown as vendor-defined"
            else:  # warning / error
                shown = text[len("TPM_RC.") :]
                if name is not None and shown != name:
                    bad = f"{cls} number {v & 0x7F:#x} is {name}"
                elif name is None and shown.split(" ")[0] in ALL_NAMES:
                    bad = f"{cls} number {v & 0x7F:#x} is undefined but shown as {shown}"
            if bad:
                ctx.problem(f"C18:text:{cls}", f"TPM_RC({v:#x}) {which} = {text!r}: {bad}", payload)
                return
    # bit rows
    path = Path(PathNode("")) / PathNode("responseCode")
    if v % 2:
        # an attribute word of another type with the very same integer was printed just before (TPMA_ALGORITHM 0x101 ...)
        for other in ("TPMA_ALGORITHM", "TPMA_OBJECT"):
            A = O.lib_type(other)
            ctx.guard(lambda: list(Pretty.unmarshal([MarshalEvent(path, A, A(v))])), "C18:pretty-other-type", payload)
        ctx.count("printed-after-same-integer-of-another-type")
    rows = ctx.guard(lambda: list(Pretty.unmarshal([MarshalEvent(path, T, x)])), "C18:pretty", payload)
    if rows is None:
        return
    # the same event shown again (a list of events printed twice, Canonical.debug() and then the printer): same rows
    again = ctx.guard(lambda: list(Pretty.unmarshal([MarshalEvent(path, T, x)])), "C18:pretty", payload)
    if again is not None and again != rows:
        ctx.problem("C18:second-print-differs", f"TPM_RC({v:#x}): printing the same value a second time gives {len(again)} rows {[strip_ansi(r)[-50:] for r in again[:3]]}, the first time {len(rows)} rows", payload)
        return
    at = ctx.guard(lambda: (len(list(x.attributes())), len(list(x.attributes()))), "C18:attributes", payload)
    if at is not None and at[0] != at[1]:
        ctx.problem("C18:second-print-differs", f"TPM_RC({v:#x}).attributes() yields {at[0]} rows when first asked and {at[1]} when asked again", payload)
        return
    parsed = [parse_row(r) for r in rows]
    if not parsed or any(p is None for p in parsed):
        ctx.problem("C18:rows-unparsable", f"TPM_RC({v:#x}): {rows!r}", payload)
        return
    head, bit_rows = parsed[0], parsed[1:]
    if head.hex != v.to_bytes(4, "big").hex() or (in_domain and head.value != texts[0]):
        ctx.problem("C18:head-row", f"TPM_RC({v:#x}): first row {head}", payload)
        return
    if v == 0:
        return
    binary = format(v, "032b")
    cover = [0] * 32
    details = {}
    for r in bit_rows:
        pattern, _, detail = r.value.partition("  ")
        if len(pattern) != 32 or any(c not in ".01" for c in pattern):
            ctx.problem("C18:row-shape", f"TPM_RC({v:#x}): bit row {r}", payload)
            return
        for i, ch in enumerate(pattern):
            if ch != ".":
                cover[i] += 1
                if ch != binary[i]:
                    ctx.problem("C18:row-bits", f"TPM_RC({v:#x}).{r.name}: shows {pattern}, value is {binary}", payload)
                    return
        details[r.name] = (pattern, detail)
    if not in_domain:
        # zero with reserved high bits set reads as a TPM 1.2 code: outside the statement (crash-freedom and truthful bits only)
        return
    if any(c != 1 for c in cover):
        ctx.problem("C18:partition", f"TPM_RC({v:#x}): bit rows cover the positions {cover} times", payload)
        return
    alldet = " | ".join(d for _, d in details.values())
    if cls in CLASS_TEXT:
        want = CLASS_TEXT[cls].format(n)
        others = [t.format(k) for c, t in CLASS_TEXT.items() for k in range(16) if t.format(k) != want]
        if want not in alldet or any((o + " ") in (alldet + " ") or alldet.endswith(o) for o in others if o in alldet and o != want and not want.startswith(o)):
            ctx.problem(f"C18:rows-class:{cls}", f"TPM_RC({v:#x}): rows' details {alldet!r} do not say {want!r} (only)", payload)
            return
        if name is not None and f"{name}:" not in alldet:
            ctx.problem(f"C18:rows-name:{cls}", f"TPM_RC({v:#x}): rows' details {alldet!r} do not name {name}", payload)
            return
    elif cls in ("warning", "error"):
        sev = "Warning" if cls == "warning" else "Error"
        other = "Error" if cls == "warning" else "Warning"
        sev_details = [d for _, d in details.values() if d in ("Warning", "Error")]
        if sev_details != [sev]:
            ctx.problem(f"C18:rows-class:{cls}", f"TPM_RC({v:#x}): severity shown as {sev_details}, expected [{sev!r}]", payload)
            return
        if name is not None and f"{name}:" not in alldet:
            ctx.problem(f"C18:rows-name:{cls}", f"TPM_RC({v:#x}): rows' details {alldet!r} do not name {name}", payload)
            return
    elif cls == "vendor":
        named = [nm for nm in ALL_NAMES if f"{nm}:" in alldet]
        if named:
            ctx.problem("C18:rows-class:vendor", f"TPM_RC({v:#x}): vendor-defined code explained as {named}", payload)


def expected_text_problem(v, text):
    """None if `text` is an acceptable text form of code v (in the statement's domain), else what is wrong."""
    cls, n, name = classify(v)
    if v != 0 and text == "TPM_RC.SUCCESS":
        return "a non-zero code reads as SUCCESS"
    if cls == "tpm12":
        return None
    if not text.startswith("TPM_RC."):
        return "does not start with TPM_RC."
    if cls == "success":
        return None if text == "TPM_RC.SUCCESS" else "zero must be TPM_RC.SUCCESS"
    if cls in CLASS_TEXT:
        want_suffix = " (" + CLASS_TEXT[cls].format(n) + ")"
        if not text.endswith(want_suffix):
            return f"must be attributed to{want_suffix}"
        shown = text[len("TPM_RC.") : -len(want_suffix)]
        if name is not None and shown != name:
            return f"format-one error number {v & 0x3F:#x} is {name}"
        if name is None and shown in ALL_NAMES:
            return f"error number {v & 0x3F:#x} is undefined but shown as {shown}"
        return None
    shown = text[len("TPM_RC.") :]
    if cls == "vendor":
        return None if ("endor" in shown and shown.split(" ")[0] not in ALL_NAMES) else "vendor-defined code must be shown as vendor-defined"
    if name is not None and shown != name:
        return f"{cls} number {v & 0x7F:#x} is {name}"
    if name is None and shown.split(" ")[0] in ALL_NAMES:
        return f"{cls} number {v & 0x7F:#x} is undefined but shown as {shown}"
    return None


def rows_name_problem(v, rows):
    """The rows' details must carry the class / number / name of code v (rows: (name, mask, details) triples)."""
    cls, n, name = classify(v)
    alldet = " | ".join(str(d) for _, _, d in rows if d)
    code_det = [str(d) for nm, _, d in rows if nm == "code" and d]
    shown = code_det[0].split(":")[0] if code_det else None
    if cls in CLASS_TEXT:
        if CLASS_TEXT[cls].format(n) not in alldet:
            return f"rows' details {alldet!r} do not say {CLASS_TEXT[cls].format(n)!r}"
    elif cls in ("warning", "error"):
        sev = [d for _, _, d in rows if d in ("Warning", "Error")]
        if sev != ["Warning" if cls == "warning" else "Error"]:
            return f"severity shown as {sev}"
    else:
        return None
    if name is not None and shown != name:
        return f"the code row names {shown!r}, the code is {name}"
    if name is None and shown in ALL_NAMES:
        return f"the code row names {shown!r} although number {v & 0x7F:#x} is undefined in this table"
    return None


def check_neighbours(ctx, v):
    """Stale state between calls: right after another code was formatted / classified - one that differs in a single bit, so
    that any partial cache key collides - code v must still read as itself, and a fresh object's rows (asked for *before* its
    text) must be v's rows."""
    T = O.lib_type("TPM_RC")
    for b in (0, 5, 6, 7, 8, 9, 10, 11, 12, 31):
        u = v ^ (1 << b)
        payload = {"value": v, "previous": u}
        r = ctx.guard(lambda: (format(T(u), ""), format(T(v), "")), "C18:text", payload)
        if r is None:
            return
        ctx.case(("nb", u, v), True)
        bad = expected_text_problem(v, r[1])
        if bad:
            ctx.problem("C18:text-after-neighbour", f"TPM_RC({v:#x}) formatted right after TPM_RC({u:#x}) reads {r[1]!r}: {bad}", payload)
            return
        rows = ctx.guard(lambda: (format(T(u), ""), rows_snapshot(T(v).attributes()))[1], "C18:attributes", payload)
        if rows is None:
            return
        bad = rows_name_problem(v, rows)
        if bad:
            ctx.problem("C18:rows-after-neighbour", f"rows of a fresh TPM_RC({v:#x}) asked for right after TPM_RC({u:#x}) was formatted: {bad}", payload)
            return


def rows_snapshot(rows):
    return [(getattr(r, "_name", None), int(getattr(r, "_value", -1)), getattr(r, "_details", None)) for r in rows]


def check_history(ctx, v_prev, v):
    """Two codes in a row: the rows handed out for the first one must not change when the second one is classified, and a code
    built from a typed number (as the object API does) reads like the same code built from a plain integer."""
    T = O.lib_type("TPM_RC")
    U = O.lib_type("UINT32")
    payload = {"value": v, "previous": v_prev}
    a = ctx.guard(lambda: T(v_prev).attributes(), "C18:attributes", payload)
    if a is None:
        return
    before = rows_snapshot(a)
    b = ctx.guard(lambda: (T(v).attributes(), format(T(v), "")), "C18:attributes", payload)
    if b is None:
        return
    ctx.case(("hist", v_prev, v), True)
    if rows_snapshot(a) != before:
        ctx.problem("C18:rows-change-later", f"the bit rows of TPM_RC({v_prev:#x}) changed after TPM_RC({v:#x}) was classified: {before} -> {rows_snapshot(a)}", payload)
        return
    for name, typed in (("UINT32", lambda: T(U(v))), ("TPM_RC", lambda: T(T(v)))):
        t = ctx.guard(lambda: (format(typed(), ""), rows_snapshot(typed().attributes()), int(typed())), f"C18:typed-construction:{name}", payload)
        if t is None:
            return
        if t[0] != b[1] or t[1] != rows_snapshot(b[0]) or t[2] != v:
            ctx.problem("C18:typed-construction", f"TPM_RC({name}({v:#x})) reads {t[0]!r} with rows {[r[0] for r in t[1]]}, TPM_RC({v:#x}) reads {b[1]!r} with rows {[r[0] for r in rows_snapshot(b[0])]}", payload)
            return


def domain():
    lows = [0] + [x for x in range(0x1000) if x & 0x180]
    return [hi | lo for lo in lows for hi in (0, 0x1000, 0x80000000, 0xFFFFF000)]


def run_shard(ctx):
    vals = ctx.mine(domain())

    def loop():
        for v in vals:
            check_code(ctx, v)

    ctx.run_plain(loop, "codes")

    def history():
        prev = 0x101
        for i, v in enumerate(vals):
            if i % 3 == 0 or v == 0:
                check_history(ctx, prev, v)
                prev = v

    ctx.run_plain(history, "history")

    def neighbours():
        for i, v in enumerate(vals):
            if v < 0x1000 and (i % 2 == 0 or not ctx.quick()):
                check_neighbours(ctx, v)

    ctx.run_plain(neighbours, "neighbours")


def finalize(merged):
    return {"coverage": {"codes_in_domain": len(domain())}}


def replay(ctx, payload):
    if "previous" in payload:
        check_history(ctx, payload["previous"], payload["value"])
        check_neighbours(ctx, payload["value"])
    check_code(ctx, payload["value"])
