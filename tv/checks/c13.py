"""C13 - a constraint error accounts for every input byte (byte accounting identity on every strict rejection)."""
from hypothesis import strategies as st

from .. import faults, gen, synthetic
from .common import layout, model_for_case
from .strictdiff import accounting_problem, payload_of, strict_pair
from ..compare import judge_strict

ID = "C13"
LEVEL = "fault_enumeration"
MIX = True  # a share of the decodes goes through the other front ends and byte sources (context.py)
HISTORY = True  # every second shard first runs a prelude of earlier library use (history.py)
OLANE = True  # two more shards run in an interpreter started with -O (runner.start_olane)
RULE = (
    "all strict-mode rejections produced by the size-field perturbations of C03 and the value faults of C04 on hypothesis-generated "
    "messages - the fault at every position including the final field and the final byte - each with and without trailing bytes, plus "
    "the exhaustive small-alphabet strings of the synthetic nested types. Oracle: input == bytes of the emitted primitive events + "
    "consumed offending bytes (the bad field for a value error, the rest of the overrun region for exceeded, nothing for "
    "subceeded/anticipated) + bytes(error.bytes_remaining), computed from the library's own report, and the remaining bytes the "
    "reference decoder dictates. Non-trivial = the error is raised at the last byte of the input or inside >= 2 regions; distinct = bytes."
)
ASSUMPTIONS = ["bytes_remaining may be any iterable of ints; it is materialised once, after the error was caught"]


def judge(ctx, L, tname, data, cc, enc, extra=""):
    ref, obs = strict_pair(L, tname, data, cc, enc)
    o = obs.outcome
    is_constraint = o["kind"] in ("value", "exceeded", "subceeded", "anticipated", "encmismatch")
    at_end = is_constraint and (o.get("remaining") == b"" or ref.outcomes[0].get("remaining") == b"")
    deep = sum(1 for r in ref.regions) >= 2
    ctx.case((tname, cc, enc, data), is_constraint and (at_end or deep), sample={"type": tname, "hex": data.hex()[:160], "error": o["kind"], "remaining": (o.get("remaining") or b"").hex()[:40]} if is_constraint and at_end else None)
    ctx.count(f"outcome:{o['kind']}")
    if not is_constraint:
        return True
    if at_end:
        ctx.count("error-at-last-byte")
    p = accounting_problem(L, data, obs)
    if p:
        ctx.problem(f"C13:{p[0]}", f"{p[1]}; input {data.hex()} as {tname} cc={cc} enc={enc} {extra}", payload_of(tname, data, cc, enc))
        return False
    # the model's remaining bytes, when the rest of the outcome agrees (class/details are C03/C04's business)
    if judge_strict(L, obs, ref, check_remaining=False) is None:
        j = judge_strict(L, obs, ref, check_remaining=True)
        if j is not None:
            ctx.problem(f"C13:model:{j[0]}", f"{j[1]}; input {data.hex()} as {tname} cc={cc} enc={enc} {extra}", payload_of(tname, data, cc, enc))
            return False
    return True


def check_case(ctx, L, ex):
    case, tail = ex
    ref0 = model_for_case(L, case)
    ctx.count("messages")
    muts = [(faults.patch(L, case, {i: nv}), f"{case.tokens[i][0]} -> {nv} ({label})") for i, nv, label, _ in faults.size_perturbations(L, case, ref0)]
    sites = faults.constrained_sites(L, case)
    for i in sites:
        outs = L.outside_values(case.tokens[i][1])
        if outs:
            muts.append((faults.patch(L, case, {i: outs[0]}), f"{case.tokens[i][0]} -> {outs[0]} (value)"))
            muts.append((faults.patch(L, case, {i: outs[-1]}), f"{case.tokens[i][0]} -> {outs[-1]} (value)"))
    for data, what in muts:
        if not judge(ctx, L, case.type, data, case.cc, case.enc, what):
            return
        if tail and not judge(ctx, L, case.type, data + tail, case.cc, case.enc, what + f" + trailing {tail.hex()}"):
            return


def synthetic_part(ctx, max_len):
    LS = synthetic.extended_layout(layout())
    for t in synthetic.TOP_TYPES:
        for s in synthetic.strings([0, 1, 2, 3], max_len, ctx.shard, ctx.nshards):
            ctx.count("synthetic_strings")
            if not judge(ctx, LS, t, s, None, False):
                return


def run_shard(ctx):
    L = layout()
    body = lambda ex: check_case(ctx, L, ex)  # noqa: E731
    q = ctx.quick()
    ctx.run_plain(lambda: synthetic_part(ctx, 7 if q else 9), "synthetic")
    tail = st.one_of(st.just(b""), st.binary(min_size=1, max_size=4))
    for name, strat, n in (
        ("commands", gen.commands(L), 120 if q else 3000),
        ("responses", gen.responses(L, unknown_cc=False), 120 if q else 3000),
        ("structures", gen.structures(L), 200 if q else 5000),
    ):
        ctx.run_given(st.tuples(strat, tail), body, ctx.share(n), name=name)

    if not ctx.quick():
        from .common import fuzz_campaign

        ctx.run_plain(lambda: fuzz_campaign(ctx, "c13", 150000), "libfuzzer")


def replay(ctx, payload):
    L = synthetic.extended_layout(layout()) if "SYN" in payload["type"] else layout()
    judge(ctx, L, payload["type"], payload["data"], payload.get("cc"), payload.get("enc"))
