"""C13 - a constraint error accounts for every input byte (byte accounting identity on every strict rejection)."""
from hypothesis import strategies as st

from .. import faults, gen, observe as O, synthetic
from .common import layout, model_for_case
from .strictdiff import accounting_problem, payload_of, strict_pair
from ..compare import judge_strict

ID = "C13"
LEVEL = "fault_enumeration"
MIX = True  # a share of the decodes goes through the other front ends and byte sources (context.py)
HISTORY = True  # every second shard first runs a prelude of earlier library use (history.py)
OLANE = True  # two more shards run in an interpreter started with -O (runner.start_olane)
RULE = (
    "all strict-mode rejections produced by the size-field perturbations of C03 and the value faults of C04 on hypothesis-generated "
    "messages - the fault at every position including the final field and the final byte - each with and without trailing bytes, plus "
    "the exhaustive small-alphabet strings of the synthetic nested types. Oracle: input == bytes of the emitted primitive events + "
    "consumed offending bytes (the bad field for a value error, the rest of the overrun region for exceeded, nothing for "
    "subceeded/anticipated) + bytes(error.bytes_remaining), computed from the library's own report, and the remaining bytes the "
    "reference decoder dictates. Non-trivial = the error is raised at the last byte of the input or inside >= 2 regions; distinct = bytes."
)
ASSUMPTIONS = ["bytes_remaining may be any iterable of ints; it is materialised once, after the error was caught"]


ELLIPSIS_ = "..."


def judge(ctx, L, tname, data, cc, enc, extra=""):
    ref, obs = strict_pair(L, tname, data, cc, enc)
    o = obs.outcome
    is_constraint = o["kind"] in ("value", "exceeded", "subceeded", "anticipated", "encmismatch")
    at_end = is_constraint and (o.get("remaining") == b"" or ref.outcomes[0].get("remaining") == b"")
    deep = sum(1 for r in ref.regions) >= 2
    ctx.case((tname, cc, enc, data), is_constraint and (at_end or deep), sample={"type": tname, "hex": data.hex()[:160], "error": o["kind"], "remaining": (o.get("remaining") or b"").hex()[:40]} if is_constraint and at_end else None)
    ctx.count(f"outcome:{o['kind']}")
    if not is_constraint:
        return True
    if at_end:
        ctx.count("error-at-last-byte")
    p = accounting_problem(L, data, obs)
    if p:
        ctx.problem(f"C13:{p[0]}", f"{p[1]}; input {data.hex()} as {tname} cc={cc} enc={enc} {extra}", payload_of(tname, data, cc, enc))
        return False
    # the model's remaining bytes, when the rest of the outcome agrees (class/details are C03/C04's business)
    if judge_strict(L, obs, ref, check_remaining=False) is None:
        j = judge_strict(L, obs, ref, check_remaining=True)
        if j is not None:
            ctx.problem(f"C13:model:{j[0]}", f"{j[1]}; input {data.hex()} as {tname} cc={cc} enc={enc} {extra}", payload_of(tname, data, cc, enc))
            return False
    return True


def check_case(ctx, L, ex):
    case, tail = ex
    ref0 = model_for_case(L, case)
    ctx.count("messages")
    muts = [(faults.patch(L, case, {i: nv}), f"{case.tokens[i][0]} -> {nv} ({label})") for i, nv, label, _ in faults.size_perturbations(L, case, ref0)]
    sites = faults.constrained_sites(L, case)
    for i in sites:
        outs = L.outside_values(case.tokens[i][1])
        if outs:
            muts.append((faults.patch(L, case, {i: outs[0]}), f"{case.tokens[i][0]} -> {outs[0]} (value)"))
            muts.append((faults.patch(L, case, {i: outs[-1]}), f"{case.tokens[i][0]} -> {outs[-1]} (value)"))
    for data, what in muts:
        if not judge(ctx, L, case.type, data, case.cc, case.enc, what):
            return
        if tail and not judge(ctx, L, case.type, data + tail, case.cc, case.enc, what + f" + trailing {tail.hex()}"):
            return


def deferred_reads(ctx, L, cases):
    """Errors are kept (collected, logged later): the remaining bytes of each error are read only after *all* the failing
    decodes of a batch have been made; every error must still account for its own input.  The last input of each batch
    is followed by 70 000 further bytes (a fault at the start of a long capture)."""
    from tpmstream.common import error as E
    from tpmstream.io.binary import Binary
    from tpmstream.spec.structures.constants import TPM_CC

    batch = []
    for k, (case, bad) in enumerate(cases):
        data = bad + (bytes((7 * j + k) & 0xFF for j in range(70000)) if k % 4 == 3 else b"")
        kw = dict(tpm_type=O.lib_type(case.type), buffer=data, abort_on_error=True)
        if case.cc is not None:
            kw["command_code"] = TPM_CC(case.cc)
        if case.enc:
            kw["parameter_encryption"] = True
        events = []
        err = None
        try:
            for ev in Binary.marshal(**kw):
                events.append(ev)
        except E.ConstraintViolatedError as exc:
            err = exc
        except Exception:  # noqa: BLE001 - other outcomes are other properties' business
            continue
        if err is None:
            continue
        batch.append((case, data, events, err))
        if len(batch) < 4 and k != len(cases) - 1:
            continue
        for case_, data_, events_, err_ in batch:
            rem = err_.bytes_remaining
            try:
                rem = None if rem is None else bytes(rem)
            except Exception as exc2:  # noqa: BLE001
                rem = None
            emitted = b""
            for ev in events_:
                t = O.event_tuple(ev)
                if t[0].startswith("!") or t[2] == ELLIPSIS_ or not L.is_prim(t[1]):
                    continue
                emitted += int(t[2]).to_bytes(L.width(t[1]), "big", signed=L.signed(t[1]))
            ctx.case(("deferred", case_.type, data_[:4096]), True, sample={"deferred_read": True, "type": case_.type, "input_bytes": len(data_), "error": type(err_).__name__} if len(data_) > 60000 else None)
            ctx.count("deferred-reads")
            payload = payload_of(case_.type, data_[:2000], case_.cc, case_.enc, deferred=True)
            # the remainder is a suffix of this input that starts behind the emitted fields
            if rem is None or not data_.endswith(rem) or len(rem) > len(data_) - len(emitted):
                ctx.problem(
                    "C13:deferred-read",
                    f"read after {len(batch) - 1} other failing decodes, {type(err_).__name__}.bytes_remaining is {None if rem is None else rem.hex()[:80]} ({None if rem is None else len(rem)} bytes): not the unconsumed suffix of its own input ({len(data_)} bytes, {len(emitted)} in emitted fields); {case_.type} {data_.hex()[:160]}",
                    payload,
                )
                return
            O.reset_state()
            fresh = O.run_decode(case_.type, data_, command_code=case_.cc, enc=case_.enc, strict=True)
            if fresh.outcome.get("remaining") is not None and rem != fresh.outcome["remaining"]:
                ctx.problem(
                    "C13:deferred-read",
                    f"read after {len(batch) - 1} other failing decodes, {type(err_).__name__}.bytes_remaining holds {len(rem)} bytes ({rem.hex()[:60]}); read at once it holds {len(fresh.outcome['remaining'])} ({fresh.outcome['remaining'].hex()[:60]}); {case_.type} {data_.hex()[:160]}",
                    payload,
                )
                return
        batch = []


def stream_containers(ctx, L, case):
    """A fault in an early message of a stream, the stream handed over as bytes and in every container: whatever the front
    end, the error accounts for the whole carried input - the messages behind the faulty one are its remaining bytes."""
    sites = [i for i in faults.constrained_sites(L, case) if case.spans[i][0] < len(case.data) // 2]
    if not sites or len(case.meta.get("messages", [])) < 2:
        return
    i = sites[len(case.data) % len(sites)]
    outs = L.outside_values(case.tokens[i][1])
    if not outs:
        return
    data = faults.patch(L, case, {i: outs[len(case.data) % len(outs)]})
    for d in (None, "pcapng", "hex", "swtpm", "files", "generator"):
        O.reset_state()
        obs = O.run_decode("CommandResponseStream", data, strict=True, delivery=d)
        if d is not None and obs.delivery is None:
            continue  # the container does not apply to this input
        ctx.case(("stream-container", d, data), True, sample={"type": "CommandResponseStream", "delivery": d or "bytes", "error": obs.outcome["kind"], "remaining": len(obs.outcome.get("remaining") or b"")} if d == "pcapng" else None)
        ctx.count(f"stream-container:{d or 'bytes'}")
        p = accounting_problem(L, data, obs)
        if p:
            ctx.problem(f"C13:{p[0]}", f"{p[1]}; stream {data.hex()[:300]} handed over as {d or 'bytes'} ({case.tokens[i][0]} -> out of range)", payload_of("CommandResponseStream", data, None, False, delivery=d))
            return


def synthetic_part(ctx, max_len):
    LS = synthetic.extended_layout(layout())
    for t in synthetic.TOP_TYPES:
        for s in synthetic.strings([0, 1, 2, 3], max_len, ctx.shard, ctx.nshards):
            ctx.count("synthetic_strings")
            if not judge(ctx, LS, t, s, None, False):
                return


def run_shard(ctx):
    L = layout()
    body = lambda ex: check_case(ctx, L, ex)  # noqa: E731
    q = ctx.quick()
    ctx.run_plain(lambda: synthetic_part(ctx, 7 if q else 9), "synthetic")
    tail = st.one_of(st.just(b""), st.binary(min_size=1, max_size=4))
    for name, strat, n in (
        ("commands", gen.commands(L), 120 if q else 3000),
        ("responses", gen.responses(L, unknown_cc=False), 120 if q else 3000),
        ("structures", gen.structures(L), 200 if q else 5000),
    ):
        ctx.run_given(st.tuples(strat, tail), body, ctx.share(n), name=name)

    ctx.run_given(gen.streams(L, max_pairs=3, lone_tail=False, rare=False), lambda c: stream_containers(ctx, L, c), ctx.share(200 if q else 3000), name="stream-containers")
    # deferred reads of kept errors, and faults in front of 70 000 further bytes (judged outside hypothesis)
    collected = []

    def collect(case):
        ref0 = model_for_case(L, case)
        muts = [faults.patch(L, case, {i: nv}) for i, nv, label, _ in faults.size_perturbations(L, case, ref0)][:3]
        for i in faults.constrained_sites(L, case)[:2]:
            outs = L.outside_values(case.tokens[i][1])
            if outs:
                muts.append(faults.patch(L, case, {i: outs[0]}))
        for m in muts:
            collected.append((case, m))

    ctx.run_given(gen.messages(L), collect, ctx.share(160 if q else 1600), name="for-deferred-reads")
    ctx.run_plain(lambda: deferred_reads(ctx, L, collected), "deferred-reads")

    if not ctx.quick():
        from .common import fuzz_campaign

        ctx.run_plain(lambda: fuzz_campaign(ctx, "c13", 150000), "libfuzzer")


def replay(ctx, payload):
    L = synthetic.extended_layout(layout()) if "SYN" in payload["type"] else layout()
    if payload.get("delivery"):
        obs = O.run_decode(payload["type"], payload["data"], strict=True, delivery=payload["delivery"])
        p = accounting_problem(L, payload["data"], obs)
        if p:
            ctx.problem(f"C13:{p[0]}", f"{p[1]}; handed over as {payload['delivery']}", payload)
        return
    if payload.get("deferred"):
        print("deferred-read findings depend on the batch of decodes before the read: re-run the check with the same VERIF_SEED")
    judge(ctx, L, payload["type"], payload["data"], payload.get("cc"), payload.get("enc"))
