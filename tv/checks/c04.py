"""C04 - strict mode rejects exactly the inputs containing an out-of-range value (fault enumeration on constrained leaves)."""
from hypothesis import strategies as st

from .. import faults, gen
from .common import layout, model_for_case
from .strictdiff import replay_generic, report, strict_pair

ID = "C04"
LEVEL = "fault_enumeration"
MIX = True  # a share of the decodes goes through the other front ends and byte sources (context.py)
HISTORY = True  # every second shard first runs a prelude of earlier library use (history.py)
OLANE = True  # two more shards run in an interpreter started with -O (runner.start_olane)
RULE = (
    "every constrained leaf (declared set smaller than its width) of every hypothesis-generated well-formed message replaced by each "
    "value just outside an interval of its set, 0 and the width limits (when outside), and by every valid interval end (must stay "
    "accepted unless the reference model says the changed selector/tag re-shapes the rest); plus 2-3 simultaneous hypothesis-drawn "
    "faults. Oracle: reference strict decoder - ValueConstraintViolatedError iff some leaf is outside its set, naming the first such "
    "leaf in wire order (path, declared type, integer, allowed set compared by membership probing), events of all earlier fields and "
    "none for the offender. Non-trivial = the offending leaf is not the first field, or >= 2 faults, or a boundary value; distinct = bytes."
)
ASSUMPTIONS = ["allowed sets come from layout/snapshot.json", "the allowed set carried by the error is compared through its public `in` at every interval end +-1, the width limits and the offending value"]


def one(ctx, L, case, changes, label):
    data = faults.patch(L, case, changes)
    ref, obs = strict_pair(L, case.type, data, case.cc, case.enc)
    first = min(changes)
    first_prim = min(case.spans) if case.spans else 0
    kinds = ref.kinds
    nontrivial = first != first_prim or len(changes) > 1 or label == "boundary"
    ctx.case(
        (case.type, case.cc, case.enc, data),
        nontrivial,
        sample={"type": case.type, "faults": {case.tokens[i][0]: [case.tokens[i][1], v] for i, v in changes.items()}, "kind": label, "model": kinds, "hex": data.hex()[:160]},
    )
    ctx.count(f"fault:{label}")
    for k in kinds:
        ctx.count(f"model:{k}")
    return report(ctx, ID, L, case.type, data, case.cc, case.enc, ref, obs, extra=f"{label}: " + ", ".join(f"{case.tokens[i][0]} ({case.tokens[i][1]}) {case.tokens[i][2]} -> {v}" for i, v in changes.items()))


def check_case(ctx, L, ex):
    case, data = ex
    model_for_case(L, case)
    ctx.count("messages")
    # "if and only if": the unperturbed message (every field in range) is accepted
    ref, obs = strict_pair(L, case.type, case.data, case.cc, case.enc)
    ctx.case((case.type, case.cc, case.enc, case.data), False)
    ctx.count("fault:none")
    if not report(ctx, ID, L, case.type, case.data, case.cc, case.enc, ref, obs, extra="unperturbed: every field is in range"):
        return
    if case.type == "Response" and case.cc in L.cc_by_code and not case.meta.get("failed"):
        # the command code handed to a response decode is a constrained value as well: reserved / vendor codes, also ones
        # whose low half is this very command, are rejected before any layout is applied
        for ucc in (0x20000000 | case.cc, 0x00010000 | case.cc, 0xFFFF0000 | case.cc, 0x15A, 0x80000000, None):
            if ucc in L.cc_by_code:
                continue
            ref, obs = strict_pair(L, case.type, case.data, ucc, case.enc)
            ctx.case((case.type, ucc, case.enc, case.data), True, sample={"type": "Response", "decoded_for_command_code": ucc, "hex": case.data.hex()[:80]} if ucc == 0x15A else None)
            ctx.count("fault:unknown-command-code-argument")
            if not report(ctx, ID, L, case.type, case.data, ucc, case.enc, ref, obs, extra=f"decoded for command code {ucc if ucc is None else hex(ucc)} instead of {case.cc:#x}"):
                return
    for i, nv, label in faults.value_perturbations(L, case):
        ctx.add("leaf_types", case.tokens[i][1])
        if not one(ctx, L, case, {i: nv}, label):
            return
    sites = faults.constrained_sites(L, case)
    if len(sites) >= 2:
        for _ in range(3):
            multi = data.draw(faults.value_faults(L, case, max_faults=3))
            if len(multi) >= 2 and not one(ctx, L, case, multi, "multi"):
                return


LONG_INT_LISTS = [("TPML_CC", "count", "commandCodes", "TPM_CC"), ("TPML_ALG", "count", "algorithms", "TPM_ALG_ID"), ("TPML_HANDLE", "count", "handle", "TPM_HANDLE"), ("TPML_ECC_CURVE", "count", "eccCurves", "TPM_ECC_CURVE")]


def long_list_faults(ctx, L):
    """Lists of 64..260 constrained integers with a bad element at the first, second, a middle, the last but one and the last
    position (a decoder that handles long integer lists in bulk must still emit the earlier elements first)."""
    from ..gen import Case

    k = 0
    for tname, cname, lname, etype in LONG_INT_LISTS:
        if tname not in L.snap["structs"] or L.struct(tname)["fields"] != [[cname, "UINT32"], [lname, f"list[{etype}]"]]:
            continue
        valid = [v for lo, hi in L.allowed(etype) for v in (lo, hi)]
        outs = L.outside_values(etype)
        for n in (64, 65, 130, 260):
            k += 1
            if k % ctx.nshards != ctx.shard:
                continue
            toks = [["", tname, "..."], [f".{cname}", "UINT32", n], [f".{lname}", f"list[{etype}]", "..."]]
            toks += [[f".{lname}[{i}]", etype, valid[i % len(valid)]] for i in range(n)]
            case = Case(tname, toks, L)
            for pos in sorted({0, 1, n // 2, n - 2, n - 1}):
                for bad in (outs[0], outs[-1]):
                    if not one(ctx, L, case, {3 + pos: bad}, "outside"):
                        return
            ctx.count("long-integer-lists")


def sweep_one(ctx, L, t, data, ok):
    ref, obs = strict_pair(L, t, data)
    ctx.case((t, None, False, data), not ok)
    return report(ctx, ID, L, t, data, None, False, ref, obs, extra="primitive sweep")


def run_shard(ctx):
    L = layout()
    ctx.run_plain(lambda: long_list_faults(ctx, L), "long-int-lists")
    from .common import primitive_sweep

    ctx.run_plain(lambda: primitive_sweep(ctx, L, lambda t, data, ok: sweep_one(ctx, L, t, data, ok)), "primitive-sweep")
    body = lambda ex: check_case(ctx, L, ex)  # noqa: E731
    q = ctx.quick()
    for name, strat, n in (
        ("commands", gen.commands(L), 120 if q else 3000),
        ("responses", gen.responses(L), 120 if q else 3000),
        ("structures", gen.structures(L), 260 if q else 6000),
        ("streams", gen.streams(L, max_pairs=3), 60 if q else 1500),
    ):
        ctx.run_given(st.tuples(strat, st.data()), body, ctx.share(n), name=name)
    # every constrained primitive type on its own (first field = whole input)
    constrained = [t for t in sorted(L.prims) if L.is_constrained(t)]
    for t in ctx.mine(constrained):
        ctx.run_given(st.tuples(gen.structures(L, t), st.data()), body, 1, name=f"prim:{t}")


def finalize(merged):
    L = layout()
    constrained = {t for t in L.prims if L.is_constrained(t)}
    hit = set(merged["sets"].get("leaf_types", ()))
    if constrained - hit:
        return {"harness_error": f"constrained types never perturbed: {sorted(constrained - hit)[:8]}"}
    return {"coverage": {"constrained_leaf_types": len(constrained)}}


def replay(ctx, payload):
    replay_generic(ctx, ID, layout(), payload)
