"""C03 - strict mode accepts an input only if every size field is exact; earliest decidable point (fault enumeration)."""
from .. import faults, gen, synthetic
from .common import case_payload, layout, model_for_case
from .strictdiff import replay_generic, report, strict_pair

ID = "C03"
LEVEL = "fault_enumeration"
MIX = True  # a share of the decodes goes through the other front ends and byte sources (context.py)
HISTORY = True  # every second shard first runs a prelude of earlier library use (history.py)
OLANE = True  # two more shards run in an interpreter started with -O (runner.start_olane)
RULE = (
    "(a) every size field (commandSize, responseSize, authSize, parameterSize, every nested TPM2B size) of every hypothesis-generated "
    "well-formed message x {-k,+k (k in 1,2,3,4,5,8), 0, max, fits-the-enclosing-region-exactly, exceeds-it-by-one}; (b) exhaustive: all byte "
    "strings up to a length bound over a small alphabet for 4 synthetic nested TPM2B/list/union types. Oracle: reference strict "
    "decoder (acceptable outcome set: error class, violated size field's path, limit, bytes counted, offending field, excess; exact "
    "events before the raise; accept-side checked both ways). Non-trivial = the perturbed field is nested >= 1 region deep, or the "
    "outcome is anticipated/subceeded, or (synthetic) the outcome is a size error; distinct = (type, arguments, bytes)."
)
ASSUMPTIONS = [
    "where several regions are violated at once any of them may be named (D-1); the size field's own event may or may not precede an anticipated error (D-2)",
    "an overrun whose region tail is itself cut off may be reported as exceeded or depleted (D-4)",
]


def EXHAUSTIVE(tier):
    return False  # part (b) is exhaustive, part (a) is sampled messages with exhaustive faults per message


def check_case(ctx, L, case):
    ref0 = model_for_case(L, case)
    n = 0
    for i, nv, label, depth in faults.size_perturbations(L, case, ref0):
        data = faults.patch(L, case, {i: nv})
        ref, obs = strict_pair(L, case.type, data, case.cc, case.enc)
        kinds = ref.kinds
        nontrivial = depth >= 1 or bool({"anticipated", "subceeded"} & set(kinds))
        ctx.case((case.type, case.cc, case.enc, data), nontrivial, sample={"type": case.type, "field": case.tokens[i][0], "was": case.tokens[i][2], "now": nv, "fault": label, "model": kinds, "hex": data.hex()[:160]})
        ctx.count(f"fault:{label}")
        for k in kinds:
            ctx.count(f"model:{k}")
        ctx.count(f"depth:{min(depth, 3)}")
        n += 1
        if not report(ctx, ID, L, case.type, data, case.cc, case.enc, ref, obs, extra=f"{case.tokens[i][0]} {case.tokens[i][2]} -> {nv} ({label})"):
            return
    # sizes that stay consistent with each other while a region holds bytes no field accounts for
    for data, label in faults.consistent_insertions(L, case, ref0):
        ref, obs = strict_pair(L, case.type, data, case.cc, case.enc)
        kinds = ref.kinds
        ctx.case((case.type, case.cc, case.enc, data), kinds != ["ok"], sample={"type": case.type, "fault": label, "model": kinds, "hex": data.hex()[:160]} if kinds != ["ok"] else None)
        ctx.count("fault:consistent-insertion")
        for k in kinds:
            ctx.count(f"model:{k}")
        if not report(ctx, ID, L, case.type, data, case.cc, case.enc, ref, obs, extra=label):
            return
    ctx.count("messages")
    if n == 0:
        ctx.count("messages_without_size_field")


def synthetic_part(ctx, max_len, alphabet):
    LS = synthetic.extended_layout(layout())
    for t in synthetic.TOP_TYPES:
        for s in synthetic.strings(alphabet, max_len, ctx.shard, ctx.nshards):
            ref, obs = strict_pair(LS, t, s)
            kinds = ref.kinds
            ctx.case((t, s), bool({"anticipated", "subceeded", "exceeded"} & set(kinds)) or kinds == ["ok"], sample={"type": t, "hex": s.hex(), "model": kinds} if len(s) >= 6 else None)
            ctx.count("synthetic_strings")
            for k in kinds:
                ctx.count(f"synthetic:{k}")
            if not report(ctx, ID, LS, t, s, None, False, ref, obs):
                return


def run_shard(ctx):
    L = layout()
    body = lambda case: check_case(ctx, L, case)  # noqa: E731
    q = ctx.quick()
    ctx.run_plain(lambda: synthetic_part(ctx, 8 if q else 9, [0, 1, 2, 3] if q else [0, 1, 2, 3, 0xFF]), "synthetic")
    ctx.run_given(gen.commands(L, rare=False), body, ctx.share(400 if q else 4000), name="commands")
    ctx.run_given(gen.responses(L, rare=False, unknown_cc=False), body, ctx.share(500 if q else 5000), name="responses")
    ctx.run_given(gen.structures(L, rare=False), body, ctx.share(300 if q else 5000), name="structures")
    ctx.run_given(gen.streams(L, max_pairs=2), body, ctx.share(60 if q else 1000), name="streams")


def finalize(merged):
    c = merged["counters"]
    return {"coverage": {"exhaustive_subspace": f"{c.get('synthetic_strings', 0)} synthetic strings (all strings up to the length bound)"}}


def replay(ctx, payload):
    L = synthetic.extended_layout(layout()) if "SYN" in payload["type"] else layout()
    replay_generic(ctx, ID, L, payload)
