"""C14 - the printers show every event and every byte exactly once, in order (row/event walk predicate)."""
from .. import arb, gen, observe as O
from ..layout import list_elem
from ..pretty import parse_row, strip_ansi
from ..refdec import ELLIPSIS
from .common import layout

ID = "C14"
LEVEL = "exploration"
HISTORY = True  # every second shard first runs a prelude of earlier library use (history.py)
RULE = (
    "event streams the decoder produces for hypothesis-generated well-formed messages and streams, fault-injected inputs (size, value, "
    "cut, suffix; 1-3 faults) and arbitrary/mutated inputs, in warn mode and (when accepted) strict mode. Oracle: both printers "
    "terminate without error; rows parsed by the printer's own colour boundaries are walked against the events - one row per "
    "structure and primitive event, one row per byte buffer holding all its bytes, one row per warning, bit rows after attribute "
    "words that are not list elements, 0 or 1 row for a non-byte list parent; rows in event order; concatenated hex column == bytes "
    "of the decoded fields (== input when accepted); indentation == depth of the path; value column == format(value, ''); events "
    "printer: one line per event carrying type, path and value. Non-trivial = the stream holds a warning, a list of structures, an "
    "empty list or a byte buffer; distinct = (type, arguments, bytes, mode)."
)
ASSUMPTIONS = ["rows are parsed by the ANSI colour codes the printer emits itself", "what the bit rows contain is C17/C18's business; here their number and names are checked"]

PRINTABLE = set(range(0x20, 0x7F))


def expected_attr_rows(ev):
    try:
        return [a._name for a in ev.value.attributes()]
    except Exception:  # noqa: BLE001
        return None


def walk(L, events, rows):
    """Returns None or (signature suffix, message)."""
    from tpmstream.common.event import MarshalEvent

    parsed = []
    for r in rows:
        p = parse_row(r)
        if p is None:
            return ("row-unparsable", f"row {r!r}")
        parsed.append(p)
    ri = 0
    i = 0
    n = len(events)
    hexcol = []

    def need_row(what):
        nonlocal ri
        if ri >= len(parsed):
            return None
        r = parsed[ri]
        ri += 1
        return r

    def info_row(ev, idx):
        r = need_row("warning")
        text = f"Warning: {ev.error}"
        if r is None or r.kind != "info" or r.value != text:
            return ("warning-row", f"event {idx} (warning {type(ev.error).__name__}) should be the next row, found {r}")
        return None

    def field_row(ev, idx, hexpect, vexpect):
        r = need_row("field")
        tname = O.type_name(ev.type).replace("#enc", "")
        name = str(ev.path[-1])
        depth = len(ev.path) - 1
        if r is None or r.kind != "field":
            return ("row-missing", f"event {idx} {O.event_tuple(ev)} has no row (found {r})")
        if r.type != tname or r.name != name:
            return ("row-order", f"event {idx} {O.event_tuple(ev)} should be the next row ({tname} .{name}), found {r}")
        if r.depth != depth:
            return ("indentation", f"event {idx} {O.event_tuple(ev)}: row indentation {r.depth}, path depth {depth}")
        if r.hex != hexpect:
            return ("hex-column", f"event {idx} {O.event_tuple(ev)}: row hex {r.hex!r}, field bytes {hexpect!r}")
        if vexpect is not None and r.value != vexpect:
            return ("value-column", f"event {idx} {O.event_tuple(ev)}: row value {r.value!r}, text form {vexpect!r}")
        hexcol.append(r.hex)
        return r

    while i < n:
        ev = events[i]
        if not isinstance(ev, MarshalEvent):
            bad = info_row(ev, i)
            if bad:
                return bad
            i += 1
            continue
        tname = O.type_name(ev.type)
        elem = list_elem(tname)
        if ev.value is ... and elem is not None:
            if elem == "BYTE":
                # a byte buffer: parent + element events <-> one row; interleaved warnings keep their order after it
                buf = b""
                pending = []
                j = i + 1
                k = 0
                while j < n:
                    e2 = events[j]
                    if not isinstance(e2, MarshalEvent):
                        pending.append((j, e2))
                        j += 1
                        continue
                    if e2.path[:-1] == ev.path[:-1] and e2.path[-1].name == ev.path[-1].name and e2.path[-1].index == k and e2.value is not ...:
                        buf += int(e2.value).to_bytes(1, "big")
                        k += 1
                        j += 1
                        continue
                    break
                # warnings after the last element belong to what follows the buffer only if no element came after them
                r = field_row(ev, i, buf.hex(), None)
                if isinstance(r, tuple):
                    return r
                if len(r.value) != len(buf) or any((ch != "." and ord(ch) != b) or (ch == "." and b in PRINTABLE and b != 0x2E) for ch, b in zip(r.value, buf)):
                    return ("buffer-text", f"event {i}: buffer row text {r.value!r} is not the printable rendering of {buf.hex()}")
                for idx, w in pending:
                    bad = info_row(w, idx)
                    if bad:
                        return (bad[0] + ":after-buffer", bad[1])
                i = j
                continue
            # non-byte list parent: 0 or 1 row
            if ri < len(parsed):
                r = parsed[ri]
                if r.kind == "field" and r.type == tname and r.name == str(ev.path[-1]) and r.hex == "" and r.depth == len(ev.path) - 1:
                    ri += 1
            i += 1
            continue
        if ev.value is ...:
            r = field_row(ev, i, "", "")
            if isinstance(r, tuple):
                return r
            i += 1
            continue
        # primitive
        try:
            text = format(ev.value, "")
        except Exception as exc:  # noqa: BLE001
            return ("format-raises", f"event {i}: format() of {O.event_tuple(ev)} raised {exc!r}")
        w = L.width(tname) if L.is_prim(tname) else None
        hexpect = int(ev.value).to_bytes(w, "big", signed=L.signed(tname)).hex() if w else None
        r = field_row(ev, i, hexpect, text)
        if isinstance(r, tuple):
            return r
        if hasattr(ev.value, "attributes") and ev.path[-1].index is None:
            names = expected_attr_rows(ev)
            if names is None:
                return ("attributes-raise", f"event {i}: attributes() of {O.event_tuple(ev)} raised")
            got = []
            bits = 8 * w if w else 0
            binary = format(int(ev.value) & ((1 << bits) - 1), f"0{bits}b") if bits else ""
            cover = [0] * bits
            while ri < len(parsed) and parsed[ri].kind == "field" and parsed[ri].type == "" and len(got) < len(names):
                got.append(parsed[ri].name)
                if parsed[ri].depth != len(ev.path) or parsed[ri].hex != "":
                    return ("bit-row-shape", f"event {i}: bit row {parsed[ri]}")
                # "their bit rows": a row shows bits of this word at their positions and dots elsewhere, no bit twice
                pattern = parsed[ri].value.split(" ")[0]
                if bits and (len(pattern) != bits or any(ch != "." and ch != binary[k] for k, ch in enumerate(pattern))):
                    return ("bit-row-bits", f"event {i} {O.event_tuple(ev)}: bit row .{parsed[ri].name} shows {pattern!r}, the word is {binary}")
                for k, ch in enumerate(pattern):
                    if ch != ".":
                        cover[k] += 1
                ri += 1
            if any(c > 1 for c in cover):
                return ("bit-rows-overlap", f"event {i} {O.event_tuple(ev)}: bit rows show positions {[k for k, c in enumerate(cover) if c > 1]} (from the left) more than once")
            if sorted(got) != sorted(names):
                return ("bit-rows", f"event {i} {O.event_tuple(ev)}: bit rows {got}, fields {names}")
        i += 1
    if ri != len(parsed):
        return ("extra-rows", f"{len(parsed) - ri} rows beyond the events, first {parsed[ri]}")
    return ("ok", "".join(hexcol))


def check_events(ctx, L, what, events, field_bytes, payload, accepted_input=None):
    from tpmstream.io.events import Events
    from tpmstream.io.pretty import Pretty

    rows = ctx.guard(lambda: list(Pretty.unmarshal(list(events))), "C14:pretty", payload)
    if rows is None:
        return False
    res = walk(L, events, rows)
    if res[0] != "ok":
        ctx.problem(f"C14:pretty:{res[0]}", f"{res[1]}; {what}", payload)
        return False
    if bytes.fromhex(res[1]) != field_bytes:
        ctx.problem("C14:pretty:hex-total", f"hex column concatenated {res[1]} != bytes of the decoded fields {field_bytes.hex()}; {what}", payload)
        return False
    if accepted_input is not None and bytes.fromhex(res[1]) != accepted_input:
        ctx.problem("C14:pretty:hex-input", f"hex column does not reproduce the accepted input; {what}", payload)
        return False
    lines = ctx.guard(lambda: list(Events.unmarshal(list(events))), "C14:events-printer", payload)
    if lines is None:
        return False
    if len(lines) != len(events):
        ctx.problem("C14:events-printer:line-count", f"{len(lines)} lines for {len(events)} events; {what}", payload)
        return False
    from tpmstream.common.event import MarshalEvent

    for k, (ev, line) in enumerate(zip(events, lines)):
        s = strip_ansi(line)
        if isinstance(ev, MarshalEvent):
            tn = O.type_name(ev.type).replace("#enc", "")
            val = "..." if ev.value is ... else format(ev.value, "")
            if not s.startswith(tn) or not s.endswith(f"{ev.path} = {val}"):
                ctx.problem("C14:events-printer:line", f"line {k} {s!r} does not show {tn} {ev.path} = {val}; {what}", payload)
                return False
        elif str(ev.error) not in s:
            ctx.problem("C14:events-printer:warning-line", f"line {k} {s!r} does not show the warning {ev.error}; {what}", payload)
            return False
    return True


def lazy_print(ctx, L, t, cc, enc, data, eager_rows, payload, what):
    """The README's way of printing: the decoder's generator handed straight to the printer, in strict mode.  When the decode
    raises in the middle, the rows printed so far must be rows of the eager print-out, in order, and the printer must be left
    in working order: a canary word printed afterwards still gets its bit rows."""
    from tpmstream.common.event import MarshalEvent
    from tpmstream.common.path import Path, PathNode
    from tpmstream.io.binary import Binary
    from tpmstream.io.pretty import Pretty
    from tpmstream.spec.structures.constants import TPM_CC

    kw = dict(tpm_type=O.lib_type(t), buffer=bytes(data), abort_on_error=True)
    if cc is not None:
        kw["command_code"] = TPM_CC(cc)
    if enc:
        kw["parameter_encryption"] = True
    rows = []
    try:
        for r in Pretty.unmarshal(Binary.marshal(**kw)):
            rows.append(r)
    except O.DOCUMENTED:
        pass
    except Exception as exc:  # noqa: BLE001
        sig = O.crash_signature(exc)
        ctx.problem(f"C14:lazy:crash:{sig['class']}@{sig['where']}", f"printing the lazy strict decode failed with {sig['class']}: {sig['message']}; {what}", payload)
        return False
    ctx.count("lazy-prints-of-rejected-inputs")
    a = [strip_ansi(r) for r in rows]
    b = [strip_ansi(r) for r in eager_rows]
    k = 0
    for r in a:  # every lazily printed row appears in the eager print-out, in order
        while k < len(b) and b[k] != r:
            k += 1
        if k == len(b):
            ctx.problem("C14:lazy:rows", f"the lazy print-out holds the row {r!r} which the print-out of the same events does not (in this order); {what}", payload)
            return False
        k += 1
    T = O.lib_type("TPMA_SESSION")
    canary = list(Pretty.unmarshal([MarshalEvent(Path(PathNode("")) / PathNode("canary"), T, T(0x21))]))
    if len(canary) != 1 + len(T(0x21).attributes()):
        ctx.problem("C14:lazy:printer-state", f"after printing a lazy decode that raised, a TPMA_SESSION word is printed with {len(canary) - 1} bit rows instead of {len(T(0x21).attributes())}; {what}", payload)
        return False
    return True


_PREVIOUS = []  # the last warn-mode input with a warning seen by this shard: (type, cc, enc, data)


def interleaved(ctx, L, a, b):
    """Two print-outs in flight at once (rows pulled alternately, as zip() or two consumers do) and a print-out that is
    abandoned half-way: every print-out shows exactly the rows it shows when it runs alone."""
    import itertools

    from tpmstream.io.pretty import Pretty

    evs, alone = [], []
    for t, cc, enc, data in (a, b):
        O.reset_state()
        obs = O.run_decode(t, data, command_code=cc, enc=enc, strict=False)
        evs.append(list(obs.raw))
        rows = ctx.guard(lambda: list(Pretty.unmarshal(list(obs.raw))), "C14:pretty", {"type": t, "cc": cc, "enc": bool(enc), "data": bytes(data)})
        if rows is None:
            return False
        alone.append(rows)
    payload = {"type": b[0], "cc": b[1], "enc": bool(b[2]), "data": bytes(b[3]), "interleaved_with": {"type": a[0], "cc": a[1], "enc": bool(a[2]), "data": bytes(a[3])}}
    ctx.case(("interleaved", a[0], bytes(a[3]), b[0], bytes(b[3])), True, sample={"interleaved_print_outs": [a[0], b[0]], "rows": [len(alone[0]), len(alone[1])]} if len(alone[0]) > 5 else None)
    ctx.count("interleaved-print-outs")

    def both():
        g = [Pretty.unmarshal(list(evs[0])), Pretty.unmarshal(list(evs[1]))]
        got = [[], []]
        for x, y in itertools.zip_longest(g[0], g[1]):
            if x is not None:
                got[0].append(x)
            if y is not None:
                got[1].append(y)
        return got

    got = ctx.guard(both, "C14:pretty:interleaved", payload)
    if got is None:
        return False
    for k in (0, 1):
        if got[k] != alone[k]:
            d = next((i for i, (x, y) in enumerate(zip(got[k], alone[k])) if x != y), min(len(got[k]), len(alone[k])))
            ctx.problem("C14:pretty:interleaved", f"printed side by side with another print-out, row {d} of {'the first' if k == 0 else 'the second'} is {strip_ansi(got[k][d])[-80:] if d < len(got[k]) else None!r}, printed alone it is {strip_ansi(alone[k][d])[-80:] if d < len(alone[k]) else None!r} ({len(got[k])} vs {len(alone[k])} rows); inputs {a[0]} {bytes(a[3]).hex()[:100]} and {b[0]} {bytes(b[3]).hex()[:100]}", payload)
            return False
    # abandon a print-out of the first at every third row boundary, then print the second alone
    for stop in range(1, len(alone[0]), 3):
        g = Pretty.unmarshal(list(evs[0]))
        for _ in itertools.islice(g, stop):
            pass
        del g
        again = ctx.guard(lambda: list(Pretty.unmarshal(list(evs[1]))), "C14:pretty:after-abandoned", payload)
        if again is None:
            return False
        if again != alone[1]:
            ctx.problem("C14:pretty:after-abandoned", f"after a print-out of {a[0]} {bytes(a[3]).hex()[:100]} was abandoned behind row {stop}, {b[0]} {bytes(b[3]).hex()[:100]} prints {len(again)} rows instead of {len(alone[1])}", payload)
            return False
    return True


def judge(ctx, L, t, cc, enc, data, how=""):
    O.reset_state()
    payload = {"type": t, "cc": cc, "enc": bool(enc), "data": bytes(data)}
    what = f"input {bytes(data).hex()[:400]} as {t} cc={cc} enc={enc}"
    for strict in (False, True):
        obs = O.run_decode(t, data, command_code=cc, enc=enc, strict=strict)
        if strict and obs.outcome["kind"] != "ok":
            if obs.outcome["kind"] in ("crash", "runaway") or len(data) > 4096:
                continue
            from tpmstream.io.pretty import Pretty

            eager = ctx.guard(lambda: list(Pretty.unmarshal(list(obs.raw))), "C14:pretty", payload)
            if eager is None or not lazy_print(ctx, L, t, cc, enc, data, eager, payload, what + " (strict, lazy)"):
                return False
            continue
        events = obs.raw
        field_bytes = b"".join(int(e[2]).to_bytes(L.width(e[1]), "big", signed=L.signed(e[1])) for e in obs.events if e[0][0:1] != "!" and e[2] != ELLIPSIS and L.is_prim(e[1]))
        has_warning = any(e[0] == "!warning" for e in obs.events)
        has_list = any(e[0][0:1] != "!" and e[2] == ELLIPSIS and e[1].startswith("list[") for e in obs.events)
        ctx.case((t, cc, enc, bytes(data), strict), has_warning or has_list, sample={"type": t, "hex": bytes(data).hex()[:120], "mode": "strict" if strict else "warn", "events": len(events), "warnings": sum(1 for e in obs.events if e[0] == "!warning")} if has_warning and len(events) > 5 else None)
        ctx.count("streams-with-warning" if has_warning else "streams-without-warning")
        if how:
            ctx.count(f"how:{how}")
        if not check_events(ctx, L, what + (" (strict)" if strict else " (warn)"), events, field_bytes, payload, accepted_input=bytes(data) if obs.outcome["kind"] == "ok" and not has_warning else None):
            return False
        if not strict and has_warning and len(events) <= 600 and obs.outcome["kind"] == "ok":
            cur = (t, cc, enc, bytes(data))
            if _PREVIOUS and len(data) % 4 == 0:
                if not interleaved(ctx, L, _PREVIOUS[0], cur):
                    return False
            _PREVIOUS[:] = [cur]
    return True


def run_shard(ctx):
    L = layout()
    q = ctx.quick()
    ctx.run_given(gen.messages(L), lambda c: judge(ctx, L, c.type, c.cc, c.enc, c.data, "wellformed"), ctx.share(1200 if q else 20000), name="wellformed")
    ctx.run_given(gen.streams(L, max_pairs=2), lambda c: judge(ctx, L, c.type, c.cc, c.enc, c.data, "stream"), ctx.share(200 if q else 3000), name="streams")
    # scale: one long stream (hundreds of messages) or one list with ~1000 elements per shard
    # (generated under hypothesis, judged outside it: hypothesis raises the interpreter's recursion limit while a test
    # runs, which would hide a printer whose recursion depth grows with the number of lists)
    collected = []
    if ctx.shard % 2:
        ctx.run_given(gen.long_streams(L), collected.append, 1 if q else 4, name="long-stream")
        how = "long-stream"
    else:
        ctx.run_given(gen.long_lists(L), collected.append, 1 if q else 4, name="long-list")
        how = "long-list"
    for c in collected:
        ctx.run_plain(lambda c=c: judge(ctx, L, c.type, c.cc, c.enc, c.data, how), how)
    # very long buffers with events behind them (a GetRandom response with a session and up to 65535 random bytes)
    for c in ctx.mine(gen.huge_messages(L)):
        ctx.run_plain(lambda c=c: judge(ctx, L, c.type, c.cc, c.enc, c.data, "huge-message"), "huge-message")
    ctx.run_given(arb.faulted_input(L), lambda x: judge(ctx, L, x[0], x[1], x[2], x[3], "faulted"), ctx.share(2500 if q else 40000), name="faulted")
    ctx.run_given(arb.arbitrary_input(L), lambda x: judge(ctx, L, x[0], x[1], x[2], x[3], x[4]), ctx.share(1500 if q else 25000), name="arbitrary")


def replay_interleaved(ctx, L, payload):
    w = payload["interleaved_with"]
    interleaved(ctx, L, (w["type"], w.get("cc"), w.get("enc"), w["data"]), (payload["type"], payload.get("cc"), payload.get("enc"), payload["data"]))


def replay(ctx, payload):
    if payload.get("interleaved_with"):
        return replay_interleaved(ctx, layout(), payload)
    judge(ctx, layout(), payload["type"], payload.get("cc"), payload.get("enc"), payload["data"])
