"""C16 - protocol integers carry their value, width, validity and name faithfully (plain-int semantics + snapshot sets)."""
import operator

from hypothesis import strategies as st

from .. import observe as O
from .common import layout

ID = "C16"
LEVEL = "exploration"
HISTORY = True  # every second shard first runs a prelude of earlier library use (history.py)
RULE = (
    "all 102 primitive types: every value of every 8-bit type (exhaustive, both tiers); 16-bit types: declared members, interval "
    "ends +-2, width limits and hypothesis-drawn values (quick) / all 65536 values (thorough, exhaustive); 32/64-bit types: interval "
    "ends +-2, width limits, members and hypothesis-drawn values; operator pairs over boundary values in the three operand "
    "arrangements typed-int, int-typed, typed-typed. Oracle: plain int semantics (conversion, ==, hash, ordering, 19 binary "
    "operators incl. the exception class), big-endian two's-complement bytes of the declared width, is_valid() iff value in the "
    "snapshot's interval set, text form (format and str) = a declared name for that value / range name + zero-padded hex offset. "
    "Non-trivial = the value is a declared member, an interval end, or outside the allowed set; distinct = (type, value[, op, operand])."
)
ASSUMPTIONS = ["allowed sets and member names come from layout/snapshot.json (tied to the live tables by C20)", "aliases: any declared name with that value is accepted (D-6)"]


def EXHAUSTIVE(tier):
    return False  # the 8-bit (and in the thorough tier 16-bit) sub-spaces are exhaustive, 32/64-bit ones are sampled


BINOPS = [
    ("+", operator.add), ("-", operator.sub), ("*", operator.mul), ("/", operator.truediv), ("//", operator.floordiv),
    ("%", operator.mod), ("divmod", divmod), ("&", operator.and_), ("|", operator.or_), ("^", operator.xor),
    ("<", operator.lt), ("<=", operator.le), ("==", operator.eq), ("!=", operator.ne), (">", operator.gt), (">=", operator.ge),
]
SHIFTOPS = [("**", operator.pow), ("<<", operator.lshift), (">>", operator.rshift)]


def expected_texts(L, tname, v):
    """Acceptable text forms of a *valid* value, or None when the statement does not fix one (bit-fields, response codes)."""
    p = L.prim(tname)
    if p["kind"] in ("bitfield", "rc"):
        return None
    out = set()
    if p["kind"] == "enum":
        for m in p["members"]:
            if "value" in m and m["value"] == v:
                out.add(f"{tname}.{m['name']}")
            elif "range" in m and m["range"][0] <= v < m["range"][1]:
                out.add(f"{tname}.{m['basename']}{m['sep']}{v - m['range'][0]:0{m['nibbles']}x}")
        return out
    for it in p["valid_items"]:
        if "lo" not in it or not it["lo"] <= v <= it["hi"]:
            continue
        if it["kind"] in ("range", "int"):
            out.add(str(v))
        elif it["kind"] == "named_range":
            out.add(f"{it['text']}{v - it['lo']:0{it['nibbles']}x}")
        elif it["kind"] == "member":
            out.add(it["text"])
    return out


def interesting_values(L, tname):
    p = L.prim(tname)
    lo, hi = L.limits(tname)
    vals = {lo, lo + 1, hi - 1, hi, 0, 1, -1 if lo < 0 else 2}
    for a, b in p["allowed"]:
        for d in (-2, -1, 0, 1, 2):
            vals.update((a + d, b + d))
    for m in p.get("members", []):
        if "value" in m:
            vals.add(m["value"])
        elif "range" in m:
            vals.update((m["range"][0], m["range"][1] - 1, m["range"][0] + 15, m["range"][0] + 16))
    for it in p["valid_items"]:
        if "lo" in it:
            vals.update((it["lo"], it["hi"]))
    # bit patterns: every single bit, every run of low ones, byte lanes, words with only high bits (clear low 8 / 12 / 16 bits)
    bits = 8 * p["width"]
    for k in range(bits):
        vals.update((1 << k, (1 << k) - 1, (1 << k) + 1, ((1 << bits) - 1) ^ (1 << k), ((1 << bits) - 1) >> k << k))
    for k in range(0, bits, 8):
        vals.update((0xFF << k, 0xA5 << k, 0x01 << k | 1))
    for low in (8, 12, 16):
        if bits > low:
            vals.update((3 << low, 0x5A5A5A5A5A5A5A5A >> (64 - bits) >> low << low, ((1 << bits) - 1) >> low << low))
    return sorted(v for v in vals if lo <= v <= hi)


_MEMBER_TEXTS = {}


def member_texts(L, tname):
    """text form -> integer for every member the type declares by name (not ranges)."""
    if tname not in _MEMBER_TEXTS:
        p = L.prim(tname)
        out = {}
        for m in p.get("members", []):
            if "value" in m:
                out.setdefault(f"{tname}.{m['name']}", set()).add(m["value"])
        for it in p["valid_items"]:
            if it.get("kind") == "member" and "lo" in it and it["lo"] == it["hi"]:
                out.setdefault(it["text"], set()).add(it["lo"])
        if p["kind"] == "rc":
            # the pinned layout lists no members for the response-code type: the constants the class itself declares by name
            # (upper-case class attributes that read as integers: TPM_RC.SUCCESS = 0)
            T = O.lib_type(tname)
            for name in vars(T):
                if name.isupper():
                    try:
                        out.setdefault(f"{tname}.{name}", set()).add(int(getattr(T, name)))
                    except Exception:  # noqa: BLE001 - not an integer constant
                        pass
        _MEMBER_TEXTS[tname] = out
    return _MEMBER_TEXTS[tname]


def is_boundary(L, tname, v):
    for a, b in L.allowed(tname):
        if v in (a, b):
            return True
    return False


def check_value(ctx, L, tname, v):
    T = O.lib_type(tname)
    p = L.prim(tname)
    payload = {"type": tname, "value": v}
    valid = L.contains(tname, v)
    ctx.case((tname, v), (not valid) or is_boundary(L, tname, v) or p["kind"] == "enum" and valid, sample={"type": tname, "value": v, "valid": valid} if (v not in (0, 1)) else None)
    ctx.add("types", tname)
    kind = p["kind"]
    x = ctx.guard(lambda: T(v), f"C16:construct:{kind}", payload)
    if x is None:
        return
    w = p["width"]

    def fail(aspect, msg):
        ctx.problem(f"C16:{aspect}:{kind}", f"{tname}({v}): {msg}", payload)

    r = ctx.guard(lambda: (int(x), x == v, v == x, x != v, hash(x), x == T(v), x.__index__()), f"C16:int-eq-hash:{kind}", payload)
    if r is None:
        return
    if r[0] != v or type(r[0]) is not int:
        return fail("int", f"int() gives {r[0]!r}")
    if r[1] is not True or r[2] is not True or r[3] is not False or r[5] is not True:
        return fail("eq", f"==/!= with the plain integer or an equal typed value gives {r[1:4]}, {r[5]}")
    if r[4] != hash(v):
        return fail("hash", f"hash {r[4]} != hash(int) {hash(v)}")
    if r[6] != v:
        return fail("index", f"__index__ gives {r[6]}")
    o = ctx.guard(lambda: (x < v + 1, x <= v, x > v - 1, x >= v, x < v, x > v, v + 1 > x, v - 1 < x), f"C16:order:{kind}", payload)
    if o is None:
        return
    if tuple(o) != (True, True, True, True, False, False, True, True):
        return fail("order", f"ordering against neighbours gives {o}")
    b = ctx.guard(lambda: x.to_bytes(), f"C16:to_bytes:{kind}", payload)
    if b is None:
        return
    want = v.to_bytes(w, "big", signed=p["signed"])
    if bytes(b) != want:
        return fail("to_bytes", f"byte form {bytes(b).hex()} != big-endian two's complement of width {w}: {want.hex()}")
    # the byte form must not depend on what was asked of the same object before (explicit arguments, other byte order)
    again = ctx.guard(lambda: (x.to_bytes(byteorder="little"), x.to_bytes(w), x.to_bytes(signed=p["signed"]), x.to_bytes()), f"C16:to_bytes-variants:{kind}", payload)
    if again is None:
        return
    if bytes(again[0]) != v.to_bytes(w, "little", signed=p["signed"]) or any(bytes(b2) != want for b2 in again[1:]):
        return fail("to_bytes-history", f"after to_bytes(byteorder='little') / explicit arguments the byte forms are {[bytes(b2).hex() for b2 in again]}, expected little {v.to_bytes(w, 'little', signed=p['signed']).hex()} then {want.hex()}")
    iv = ctx.guard(lambda: x.is_valid(), f"C16:is_valid:{kind}", payload)
    if iv is None and False:
        return
    if iv is not valid:
        return fail("is_valid", f"is_valid() gives {iv!r}, the declared set says {valid}")
    texts = ctx.guard(lambda: (format(x, ""), str(x), f"{x}"), f"C16:text:{kind}", payload)
    if texts is None:
        return
    # whatever the value: a declared member's name is the text form of that member's integer only
    named = member_texts(L, tname)
    for tx in texts:
        if tx in named and v not in named[tx]:
            return fail("text-names-other-member", f"text form {tx!r} is the declared name of {sorted(named[tx])}, not of {v} ({v:#x})")
    if valid:
        exp = expected_texts(L, tname, v)
        if exp is not None:
            if texts[0] not in exp or texts[2] not in exp:
                return fail("format", f"format() gives {texts[0]!r}, declared name(s) {sorted(exp)}")
            if texts[1] not in exp:
                return fail("str", f"str() gives {texts[1]!r}, declared name(s) {sorted(exp)}")


def range_name_history(ctx, L, tname):
    """Looking a handle up by a differently spelt name (upper case, no padding) must not change the text form of later values."""
    from tpmstream.spec.common.values import NamedRange

    T = O.lib_type(tname)
    p = L.prim(tname)
    for m in p.get("members", []):
        if "range" not in m:
            continue
        rng = getattr(T, m["name"], None)
        if not isinstance(rng, NamedRange):
            continue
        lo, hi = m["range"]
        for v in sorted({lo, lo + 7, lo + 10, hi - 1, lo + (hi - lo) // 2}):
            if not lo <= v < hi:
                continue
            off = v - lo
            for spelling in (f"{m['basename']}{m['sep']}{off:X}", f"{m['basename']}{m['sep']}{off:x}", f"{m['basename']}{m['sep']}{off:0{m['nibbles'] + 2}x}"):
                payload = {"type": tname, "value": v, "by_name": spelling}
                got = ctx.guard(lambda: rng.by_name(spelling), "C16:by_name", payload)
                if got is None:
                    return
                ctx.case((tname, "by_name", spelling), True, sample={"type": tname, "by_name": spelling, "value": v} if off == 7 else None)
                if int(got) != v:
                    ctx.problem("C16:by_name:value", f"{tname}.{m['name']}.by_name({spelling!r}) has value {int(got):#x}, expected {v:#x}", payload)
                    return
                check_value(ctx, L, tname, v)


CONST_SOURCES = ["TPM_ALG", "TPM_ST", "TPM_SU", "TPM_CAP", "TPM_CC", "TPM_SE", "TPM_HT", "TPM_ECC_CURVE", "TPM_RH", "TPM_RS"]


def from_typed_constants(ctx, L, tname):
    """A typed value may be built from another typed value (README: TPMI_ST_COMMAND_TAG(TPM_ST.NO_SESSIONS), UINT32(12));
    it must carry the integer with *its own* width, and plain construction afterwards must be unaffected."""
    T = O.lib_type(tname)
    p = L.prim(tname)
    lo, hi = L.limits(tname)
    w = p["width"]
    n = 0
    if lo < 0:
        return  # signed plain-range types would iterate from their lower limit (see below)
    for src in CONST_SOURCES:
        S = O.lib_type(src)
        # only small constants: a plain-range type looks a *typed* argument up by iterating its range (`x in range(...)` is
        # linear for non-int x), so e.g. UINT32(TPM_RH.OWNER) would take minutes - slow, but not wrong
        # (types whose set is given by enum members / named ranges look values up directly and take any constant)
        slow = any(it.get("kind") == "range" for it in p["valid_items"])
        members = [m for m in L.prim(src).get("members", []) if "value" in m and lo <= m["value"] <= hi and (0 <= m["value"] <= 0xFFFF or not slow)]
        for m in members[:: max(1, len(members) // 6)]:
            v = m["value"]
            c = getattr(S, m["name"], None)
            if c is None:
                continue
            payload = {"type": tname, "value": v, "from": f"{src}.{m['name']}"}
            r = ctx.guard(lambda: (lambda x: (int(x), bytes(x.to_bytes()), x == v, hash(x), x.is_valid()))(T(c)), f"C16:from-typed:{p['kind']}", payload)
            if r is None:
                return
            n += 1
            ctx.case((tname, "from", src, m["name"]), True, sample={"type": tname, "built_from": f"{src}.{m['name']}", "value": v} if n == 3 else None)
            want = v.to_bytes(w, "big", signed=p["signed"])
            if r[0] != v or r[1] != want or r[2] is not True or r[3] != hash(v):
                ctx.problem(f"C16:from-typed:{p['kind']}", f"{tname}({src}.{m['name']}) has int {r[0]}, bytes {r[1].hex()} (expected {v}, {want.hex()}), == {r[2]}", payload)
                return
            if r[4] is not L.contains(tname, v):
                ctx.problem(f"C16:from-typed:is_valid:{p['kind']}", f"{tname}({src}.{m['name']}).is_valid() is {r[4]!r}, but {v:#x} {'belongs' if L.contains(tname, v) else 'does not belong'} to the declared set of {tname}", payload)
                return
            check_value(ctx, L, tname, v)
    ctx.count("typed-from-typed", n)


def volume(ctx, L, tname, member, n):
    """Many distinct values of one named range in one process (a long capture holds thousands of distinct handles)."""
    m = next(x for x in L.prim(tname)["members"] if x.get("name") == member)
    lo, hi = m["range"]
    step = max(1, (hi - lo) // n)
    k = 0
    for v in range(lo, hi, step):
        k += 1
        if k > n:
            break
        check_value(ctx, L, tname, v)
    ctx.count(f"volume:{tname}.{member}", k)


def _same_kind(got, want):
    """The result must be the same kind of number as for plain integers (an int, not a float; a bool; a pair for divmod);
    a typed protocol integer carrying the right value is accepted as well."""
    if type(got) is type(want):
        return all(_same_kind(g, w) for g, w in zip(got, want)) if isinstance(want, tuple) else True
    return hasattr(got, "_int_size") and isinstance(want, int) and not isinstance(want, bool)


def _apply(f, a, b):
    try:
        return ("ok", f(a, b))
    except Exception as exc:  # noqa: BLE001 - the exception class is part of the comparison
        return ("exc", type(exc).__name__)


def check_ops(ctx, L, tname, v, w, small):
    """All binary operators on (v, w) in the three operand arrangements must equal the plain-int result."""
    T = O.lib_type(tname)
    kind = L.prim(tname)["kind"]
    x, y = T(v), T(w)
    ops = BINOPS + (SHIFTOPS if small else [])
    for name, f in ops:
        want = _apply(f, v, w)
        for arr, (a, b) in (("typed-int", (x, w)), ("int-typed", (v, y)), ("typed-typed", (x, y))):
            got = _apply(f, a, b)
            ctx.case((tname, v, w, name, arr), True, sample=None)
            if got != want or (got[0] == "ok" and not _same_kind(got[1], want[1])):
                ctx.problem(
                    f"C16:op:{name}:{arr}:{kind}",
                    f"{tname}: {v} {name} {w} as {arr} gives {got}, plain integers give {want}",
                    {"type": tname, "value": v, "other": w, "op": name, "arrangement": arr},
                )
                return


def ops_for_type(ctx, L, tname):
    lo, hi = L.limits(tname)
    vals = [v for v in interesting_values(L, tname)]
    pick = sorted(set(vals[:3] + vals[-3:] + [0, 1, 3, 7] + vals[len(vals) // 2 : len(vals) // 2 + 2]))
    pick = [v for v in pick if lo <= v <= hi]
    for v in pick:
        for w in pick:
            check_ops(ctx, L, tname, v, w, small=False)
    for v in pick[:6]:
        for w in (-1, 0, 1, 2, 5):
            if lo <= w <= hi:
                check_ops(ctx, L, tname, v, w, small=abs(v) < 2**20 or w <= 2)
    ctx.count("operator_pairs", len(pick) * len(pick))


INPLACE = [("+=", operator.iadd, 1), ("-=", operator.isub, 1), ("*=", operator.imul, 3), ("//=", operator.ifloordiv, 2), ("%=", operator.imod, 7), ("&=", operator.iand, 0x0F), ("|=", operator.ior, 0x0A), ("^=", operator.ixor, 0x05), ("<<=", operator.ilshift, 1), (">>=", operator.irshift, 1)]


def inplace_ops(ctx, L, tname):
    """`x += n` on a protocol integer behaves as for the plain integer: the name is re-bound to a value carrying the
    result, every other holder of the old value (an alias, a message field, a class-level constant) keeps it."""
    T = O.lib_type(tname)
    p = L.prim(tname)
    lo, hi = L.limits(tname)
    vals = [v for v in (3, 0x144, 0x40000001, lo + 5, hi - 5) if lo <= v <= hi][:3]
    members = [m for m in p.get("members", []) if "value" in m][:: max(1, len([m for m in p.get("members", []) if "value" in m]) // 3)][:3]
    n = 0
    for sym, op, k in INPLACE:
        for v in vals:
            payload = {"type": tname, "value": v, "op": sym}
            x = ctx.guard(lambda: T(v), f"C16:construct:{p['kind']}", payload)
            if x is None:
                return
            alias = x
            r = ctx.guard(lambda: op(x, k), f"C16:inplace:{p['kind']}", payload)
            if r is None:
                continue
            want = op(int(v), k)
            n += 1
            ctx.case((tname, "inplace", sym, v), True, sample={"type": tname, "statement": f"x = {tname}({v}); alias = x; x {sym} {k}", "x": want, "alias": v} if n == 2 else None)
            if int(r) != want:
                ctx.problem(f"C16:inplace:result:{p['kind']}", f"x = {tname}({v}); x {sym} {k} gives {int(r)}, the plain integer gives {want}", payload)
                return
            if int(alias) != v or bytes(alias.to_bytes()) != v.to_bytes(p["width"], "big", signed=p["signed"]):
                ctx.problem(f"C16:inplace:alias:{p['kind']}", f"x = {tname}({v}); alias = x; x {sym} {k} changed the alias to {int(alias)} (a plain integer's other holders keep {v})", payload)
                return
        for m in members:
            c = getattr(T, m["name"], None)
            if c is None or not isinstance(c, T):
                continue
            v = m["value"]
            payload = {"type": tname, "value": v, "op": sym, "member": m["name"]}
            ctx.guard(lambda: op(c, k), f"C16:inplace:{p['kind']}", payload)
            again = getattr(T, m["name"])
            n += 1
            if int(again) != v or int(c) != v:
                ctx.problem(f"C16:inplace:constant:{p['kind']}", f"c = {tname}.{m['name']}; c {sym} {k} changed the declared constant {tname}.{m['name']} from {v} to {int(again)}", payload)
                return
            check_value(ctx, L, tname, v)
    ctx.count("inplace-operator-cases", n)


def run_shard(ctx):
    L = layout()
    names = sorted(L.prims)
    # work units: (type, chunk of explicit values) - spread over shards
    units = []
    for t in names:
        w = L.width(t)
        lo, hi = L.limits(t)
        if w == 1 or (w == 2 and not ctx.quick()):
            allv = list(range(lo, hi + 1))
            step = 4096
            for i in range(0, len(allv), step):
                units.append((t, allv[i : i + step], "exhaustive"))
        else:
            units.append((t, interesting_values(L, t), "boundary"))
        units.append((t, None, "ops"))
        units.append((t, None, "inplace"))
        units.append((t, None, "from-typed"))
        if any("range" in m for m in L.prim(t).get("members", [])):
            units.append((t, None, "names"))
        units.append((t, None, "random"))
    vol = [("TPM_HR", "NV_INDEX"), ("TPM_HANDLE", None), ("TPM_HR", "TRANSIENT"), ("TPMI_RH_NV_INDEX", None)]
    if ctx.shard < len(vol):
        t, member = vol[ctx.shard]
        n = 20000 if ctx.quick() else 150000
        if member is None:
            # value-set types: walk the NV index range through the type itself
            lo, hi = 0x01000000, 0x02000000
            step = (hi - lo) // n

            def loop_vs(t=t):
                for v in range(lo, hi, step):
                    check_value(ctx, L, t, v)

            ctx.run_plain(loop_vs, f"volume:{t}")
        else:
            ctx.run_plain(lambda: volume(ctx, L, t, member, n), f"volume:{t}")
    for t, vals, mode in ctx.mine(units):
        if mode == "ops":
            ctx.run_plain(lambda: ops_for_type(ctx, L, t), f"ops:{t}")
        elif mode == "inplace":
            ctx.run_plain(lambda: inplace_ops(ctx, L, t), f"inplace:{t}")
        elif mode == "from-typed":
            ctx.run_plain(lambda: from_typed_constants(ctx, L, t), f"from-typed:{t}")
        elif mode == "names":
            ctx.run_plain(lambda: range_name_history(ctx, L, t), f"names:{t}")
        elif mode == "random":
            w = L.width(t)
            if w == 1 or (w == 2 and not ctx.quick()):
                continue
            lo, hi = L.limits(t)
            n = (384 if w == 2 else 256) if ctx.quick() else 2000
            strat = st.one_of(st.integers(lo, hi), st.sampled_from(L.allowed(t)).flatmap(lambda iv: st.integers(iv[0], iv[1])))
            ctx.run_given(strat, lambda v: check_value(ctx, L, t, v), n, name=f"random:{t}")
            strat2 = st.tuples(st.integers(lo, hi), st.integers(lo, hi))
            ctx.run_given(strat2, lambda vw: check_ops(ctx, L, t, vw[0], vw[1], small=False), 20 if ctx.quick() else 100, name=f"randops:{t}")
        else:
            ctx.count(f"values:{mode}", len(vals))

            def loop():
                for v in vals:
                    check_value(ctx, L, t, v)

            ctx.run_plain(loop, f"{mode}:{t}")


def finalize(merged):
    L = layout()
    missing = set(L.prims) - set(merged["sets"].get("types", ()))
    if missing:
        return {"harness_error": f"primitive types never exercised: {sorted(missing)}"}
    return {"coverage": {"primitive_types": len(L.prims), "exhaustive_subspaces": "all 8-bit types" + ("" if merged["tier"] == "quick" else " and all 16-bit types")}}


def replay(ctx, payload):
    L = layout()
    if "op" in payload:
        check_ops(ctx, L, payload["type"], payload["value"], payload["other"], small=True)
    else:
        check_value(ctx, L, payload["type"], payload["value"])
