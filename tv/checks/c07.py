"""C07 - warn mode and strict mode agree up to the first problem (metamorphic relation between the two modes)."""
from hypothesis import strategies as st

from .. import arb, faults, gen, synthetic
from .common import layout
from .modes import judge_c07

ID = "C07"
LEVEL = "exploration"
MIX = True  # a share of the decodes goes through the other front ends and byte sources (context.py)
HISTORY = True  # every second shard first runs a prelude of earlier library use (history.py)
OLANE = True  # two more shards run in an interpreter started with -O (runner.start_olane)
RULE = (
    "both modes run on the same bytes for: hypothesis-generated well-formed messages, single size-field and value faults, cuts and "
    "suffixes, 1-3 mixed injected faults, arbitrary/mutated/wrong-type inputs, and the exhaustive small-alphabet strings of the "
    "synthetic nested types. Oracle (no reference model): strict accepts => warn emits identical events and no warning; strict "
    "raises E => warn's events before its first warning equal strict's events (+ the offending event for a value error) and the "
    "first warning wraps the same class with the same details captured at delivery; warn silent => strict accepts. Non-trivial = "
    "strict mode rejected the input; distinct = (type, arguments, bytes)."
)
ASSUMPTIONS = ["an internal error of strict mode is C06's finding and is skipped here", "what warn mode does after its first warning is C08's business"]


def synthetic_part(ctx, max_len):
    LS = synthetic.extended_layout(layout())
    for t in synthetic.TOP_TYPES:
        for s in synthetic.strings([0, 1, 2, 3], max_len, ctx.shard, ctx.nshards):
            ctx.count("synthetic_strings")
            if not judge_c07(ctx, LS, t, None, False, s):
                return


def run_shard(ctx):
    L = layout()
    q = ctx.quick()
    ctx.run_plain(lambda: synthetic_part(ctx, 7 if q else 9), "synthetic")
    from .common import primitive_sweep

    ctx.run_plain(lambda: primitive_sweep(ctx, L, lambda t, data, ok: judge_c07(ctx, L, t, None, False, data, "primitive-sweep")), "primitive-sweep")
    ctx.run_given(arb.faulted_input(L), lambda x: judge_c07(ctx, L, x[0], x[1], x[2], x[3], "faulted"), ctx.share(9000 if q else 150000), name="faulted")
    ctx.run_given(arb.arbitrary_input(L), lambda x: judge_c07(ctx, L, x[0], x[1], x[2], x[3], x[4]), ctx.share(6000 if q else 100000), name="arbitrary")
    ctx.run_given(gen.messages(L), lambda c: judge_c07(ctx, L, c.type, c.cc, c.enc, c.data, "wellformed"), ctx.share(1500 if q else 20000), name="wellformed")

    if not ctx.quick():
        from .common import fuzz_campaign

        ctx.run_plain(lambda: fuzz_campaign(ctx, "c07", 150000), "libfuzzer")


def replay(ctx, payload):
    L = synthetic.extended_layout(layout()) if "SYN" in payload["type"] else layout()
    judge_c07(ctx, L, payload["type"], payload.get("cc"), payload.get("enc"), payload["data"])
