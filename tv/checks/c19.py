"""C19 - the command line is a faithful front-end to the decoder (differential: CLI subprocess vs library in-process)."""
import os
import shutil
import subprocess
import sys
import tempfile

from hypothesis import strategies as st

from .. import arb, containers, gen, observe as O
from ..pretty import strip_ansi
from ..refdec import ELLIPSIS
from ..runner import HarnessError
from .common import layout

ID = "C19"
LEVEL = "exploration"
RULE = (
    "`python -m tpmstream` run as a subprocess on hypothesis-generated files: well-formed and fault-injected command/response streams "
    "rendered as binary / hex / pcapng / swtpm-log / auto-detected input x output pretty / events / binary, single structures with "
    "--type (and Response with --command); misspelt type and command names and Response without --command; `type` on generated "
    "structure files; `example X` for sampled (quick) or all (thorough) command codes and a sample of type names. Oracle: differential "
    "against the library called in-process with the same arguments - stdout (colour codes stripped) == library lines, --out binary "
    "hex == bytes of all decoded fields in order, exit 0; refused names => non-zero exit, a suggestion / error on stderr and no "
    "decode rows; `type` == the types (and response command codes) under which the file decodes strictly; `example X` blocks are of "
    "X's type / command code and re-decode (leniently: the captures hold a few out-of-range values) to exactly the rows shown. Non-trivial = the run uses a non-default option or a "
    "malformed file; distinct = (arguments, file bytes)."
)
ASSUMPTIONS = ["runs in which the library itself raises (unknown command code in warn mode, invalid hex text) are skipped and counted", "--type with --in auto is refused by the tool (RuntimeError) and not exercised"]


class Cli:
    def __init__(self):
        self.dir = tempfile.mkdtemp(prefix="c19-")
        self.n = 0

    def close(self):
        shutil.rmtree(self.dir, ignore_errors=True)

    def file(self, data):
        self.n += 1
        path = os.path.join(self.dir, f"in{self.n}.bin")
        with open(path, "wb") as f:
            f.write(data)
        return path

    def run(self, args, timeout=300, stdin=None):
        env = dict(os.environ, PYTHONPATH=O.SRC, PYTHONHASHSEED="0", PYTHONIOENCODING="utf-8")
        if isinstance(stdin, (list, tuple)):
            return self._run_pieces(args, timeout, stdin, env)
        p = subprocess.run([sys.executable, "-m", "tpmstream"] + args, capture_output=True, timeout=timeout, env=env, cwd=self.dir, input=stdin)
        return p.returncode, p.stdout.decode("utf-8", "replace"), p.stderr.decode("utf-8", "replace")

    def _run_pieces(self, args, timeout, pieces, env):
        """Standard input arriving in pieces (a pipe from a live source): each piece is written only after the tool has
        taken the one before out of the pipe (or after two seconds), so the reader sees short reads.  The outcome on a
        correct tool does not depend on the timing."""
        import fcntl
        import struct
        import termios
        import threading
        import time

        p = subprocess.Popen([sys.executable, "-m", "tpmstream"] + args, stdin=subprocess.PIPE, stdout=subprocess.PIPE, stderr=subprocess.PIPE, env=env, cwd=self.dir)
        outs = {}
        readers = [threading.Thread(target=lambda k=k, f=f: outs.__setitem__(k, f.read()), daemon=True) for k, f in (("out", p.stdout), ("err", p.stderr))]
        for t in readers:
            t.start()
        try:
            for piece in pieces:
                try:
                    p.stdin.write(piece)
                    p.stdin.flush()
                except BrokenPipeError:
                    break
                deadline = time.monotonic() + 2.0
                while time.monotonic() < deadline and p.poll() is None:
                    try:
                        pending = struct.unpack("i", fcntl.ioctl(p.stdin.fileno(), termios.FIONREAD, b"\0\0\0\0"))[0]
                    except OSError:
                        pending = 0  # cannot ask the pipe: a short pause has to do
                        time.sleep(0.3)
                    if pending == 0:
                        time.sleep(0.05)
                        break
                    time.sleep(0.01)
            try:
                p.stdin.close()
            except BrokenPipeError:
                pass
            code = p.wait(timeout=timeout)
        finally:
            if p.poll() is None:
                p.kill()
        for t in readers:
            t.join(timeout=30)
        return code, (outs.get("out") or b"").decode("utf-8", "replace"), (outs.get("err") or b"").decode("utf-8", "replace")


def lib_convert(format_in, format_out, tname, data, cc):
    """What the library produces for the same arguments (warn mode, like the tool).  Returns (kind, text or bytes)."""
    from tpmstream.io.auto import Auto
    from tpmstream.io.binary import Binary
    from tpmstream.io.events import Events
    from tpmstream.io.hex import Hex
    from tpmstream.io.pcapng import Pcapng
    from tpmstream.io.pretty import Pretty
    from tpmstream.io.swtpm_log import SWTPMLog
    from tpmstream.spec.structures.constants import TPM_CC

    fin = {"auto": Auto, "binary": Binary, "hex": Hex, "pcapng": Pcapng, "swtpm-log": SWTPMLog}[format_in]
    fout = {"binary": Binary, "events": Events, "pretty": Pretty}[format_out]
    try:
        events = fin.marshal(tpm_type=O.lib_type(tname), buffer=iter(data), command_code=TPM_CC(cc) if cc is not None else None, abort_on_error=False)
        out = list(fout.unmarshal(events))
    except Exception as exc:  # noqa: BLE001
        return ("raises", repr(exc))
    if format_out == "binary":
        return ("bytes", b"".join(out))
    return ("text", "".join(strip_ansi(line) + "\n" for line in out))


def norm_text(s):
    return "\n".join(line.rstrip() for line in strip_ansi(s).splitlines())


def convert_case(ctx, L, cli, ex):
    case, data, malformed = ex
    O.reset_state()
    fmt_in = data.draw(st.sampled_from(["binary", "hex", "pcapng", "swtpm-log", "auto", "auto-default"]))
    fmt_out = data.draw(st.sampled_from(["pretty", "pretty", "events", "binary"]))
    carried = case.data
    offs = [0]
    for p, t, v in case.tokens:
        offs.append(offs[-1] + (0 if v == ELLIPSIS else L.width(t)))
    msgs = [case.data[offs[m["first_token"]] : offs[m["first_token"] + m["n_tokens"]]] for m in case.meta["messages"]]
    if malformed:
        k = data.draw(st.integers(0, len(msgs) - 1))
        m = bytearray(msgs[k])
        if len(m) > 10:
            m[data.draw(st.integers(10, len(m) - 1))] ^= data.draw(st.sampled_from([1, 0x80, 0xFF]))
        msgs[k] = bytes(m)
        carried = b"".join(msgs)
    if fmt_in == "hex":
        content = data.draw(containers.hex_text(carried))[0].encode()
    elif fmt_in == "swtpm-log":
        content = data.draw(containers.swtpm_log(msgs))[0].encode()
    elif fmt_in == "pcapng":
        content = data.draw(containers.pcapng_capture(msgs))[0]
    elif fmt_in in ("auto", "auto-default"):
        content = carried if data.draw(st.booleans()) else data.draw(containers.pcapng_capture(msgs))[0]
    else:
        content = carried
    # how the bytes reach the tool: one file, two files (the tool concatenates its inputs), or standard input ("-")
    delivery = data.draw(st.sampled_from(["file", "file", "two-files", "stdin", "stdin-in-pieces"]))
    verb = data.draw(st.sampled_from(["convert", "convert", "co"]))
    stdin = None
    if delivery == "two-files" and len(content) >= 2:
        cut = data.draw(st.integers(1, len(content) - 1))
        args = [verb, cli.file(content[:cut]), cli.file(content[cut:])]
    elif delivery == "stdin":
        args = [verb, "-"]
        stdin = content
    elif delivery == "stdin-in-pieces" and len(content) >= 2:
        cut = data.draw(st.integers(1, len(content) - 1))
        args = [verb, "-"]
        stdin = [content[:cut], content[cut:]]
    else:
        args = [verb, cli.file(content)]
    n_files = len(args) - 1
    if fmt_in != "auto-default":
        args += ["--in", fmt_in]
    real_in = "auto" if fmt_in == "auto-default" else fmt_in
    if fmt_out != "pretty" or data.draw(st.booleans()):
        args += ["--out", fmt_out]
    if data.draw(st.integers(0, 3)) == 0:
        # the default type, spelled out (allowed with every input format, auto included)
        args += ["--type", "CommandResponseStream"]
    judge_convert(ctx, L, cli, args, real_in, fmt_out, "CommandResponseStream", content, None, malformed or fmt_in != "auto-default" or fmt_out != "pretty", n_files=n_files, stdin=stdin, delivery=delivery)


def judge_convert(ctx, L, cli, args, fmt_in, fmt_out, tname, content, cc, nontrivial, n_files=1, stdin=None, delivery="file"):
    payload = {"args": args[:1] + ["<file>"] + args[1 + n_files :], "file": content, "type": tname, "cc": cc, "in": fmt_in, "out": fmt_out, "delivery": delivery}
    ctx.count(f"delivery:{delivery}")
    kind, want = lib_convert(fmt_in, fmt_out, tname, content, cc)
    ctx.case((tuple(payload["args"]), delivery, content), nontrivial, sample={"args": payload["args"], "delivery": delivery, "file_hex": content.hex()[:100], "library": kind})
    ctx.count(f"convert:in={fmt_in}:out={fmt_out}")
    if kind == "raises":
        ctx.count("convert:library-raises(skipped)")
        return True
    code, out, err = cli.run(args, stdin=stdin)
    what = f"`tpmstream {' '.join(payload['args'])}` ({delivery}) on {len(content)} bytes ({content.hex()[:160]})"
    if code != 0:
        ctx.problem("C19:convert:exit", f"{what}: exit status {code}, stderr {err[-400:]!r}", payload)
        return False
    if kind == "bytes":
        got = "".join(out.split())
        try:
            got_b = bytes.fromhex(got)
        except ValueError:
            got_b = None
        if got_b != want:
            ctx.problem("C19:convert:binary", f"{what}: --out binary printed {got[:200]} but the library decoded the fields {want.hex()[:200]}", payload)
            return False
        return True
    if norm_text(out) != norm_text(want):
        a, b = norm_text(out).splitlines(), norm_text(want).splitlines()
        d = next((i for i, (x, y) in enumerate(zip(a, b)) if x != y), min(len(a), len(b)))
        ctx.problem(f"C19:convert:{fmt_out}", f"{what}: output line {d} is {a[d] if d < len(a) else None!r}, the library produces {b[d] if d < len(b) else None!r} ({len(a)} vs {len(b)} lines)", payload)
        return False
    return True


def typed_case(ctx, L, cli, ex):
    case, data = ex
    O.reset_state()
    fmt_in = data.draw(st.sampled_from(["binary", "hex"]))
    fmt_out = data.draw(st.sampled_from(["pretty", "events", "binary"]))
    content = case.data if fmt_in == "binary" else data.draw(containers.hex_text(case.data))[0].encode()
    if case.enc or (case.cc is not None and case.cc not in L.cc_by_code):
        return  # the tool cannot be told that a response's first parameter is encrypted, nor an unknown command code
    args = ["convert", cli.file(content), "--in", fmt_in, "--out", fmt_out, "--type", case.type]
    cc = None
    if case.type == "Response":
        cc = case.cc
        args += ["--command", L.cc_by_code[cc][0]]
    judge_convert(ctx, L, cli, args, fmt_in, fmt_out, case.type, content, cc, True)


def misspell(data, name):
    i = data.draw(st.integers(0, len(name) - 1))
    how = data.draw(st.integers(0, 2))
    if how == 0:
        return name[:i] + name[i + 1 :]
    if how == 1:
        return name[:i] + "x" + name[i:]
    return name[:i] + name[i].swapcase() + name[i + 1 :] if name[i].swapcase() != name[i] else name + "_"


def attribute_like_names():
    """Unknown names that happen to be attributes of the tables the tool looks names up in (helper methods, dunder names)."""
    from tpmstream.spec.structures.constants import TPM_CC

    names = {n for n in dir(TPM_CC)} | {n for n in dir(dict)} | {"fields", "Any", "all_types", "mro"}
    return sorted(n for n in names if n and not n.startswith("-"))


def refusal_case(ctx, L, cli, ex):
    case, data = ex
    which = data.draw(st.sampled_from(["type", "command", "response-without-command", "example", "command-attr", "example-attr"]))
    valid_types = set(O._REGISTRY) | {"Command", "Response", "CommandResponseStream"}
    if which in ("command-attr", "example-attr"):
        bad = data.draw(st.sampled_from([n for n in attribute_like_names() if n not in L.commands and n not in valid_types]))
        if which == "command-attr":
            args = ["convert", cli.file(case.data), "--in", "binary", "--type", "Response", "--command", bad]
            which = "command"
        else:
            args = ["example", bad]
            which = "example"
        return _judge_refusal(ctx, cli, case, args, which)
    if which == "type":
        bad = misspell(data, case.type)
        if bad in valid_types:
            return
        args = ["convert", cli.file(case.data), "--in", "binary", "--type", bad]
    elif which == "command":
        cmd = data.draw(st.sampled_from(sorted(L.commands)))
        bad = misspell(data, cmd)
        if bad in L.commands:
            return
        args = ["convert", cli.file(case.data), "--in", "binary", "--type", "Response", "--command", bad]
    elif which == "response-without-command":
        args = ["convert", cli.file(case.data), "--in", "binary", "--type", "Response"]
    else:
        cmd = data.draw(st.sampled_from(sorted(L.commands)))
        bad = misspell(data, cmd)
        if bad in L.commands or bad in valid_types:
            return
        args = ["example", bad]
    _judge_refusal(ctx, cli, case, args, which)


def _judge_refusal(ctx, cli, case, args, which):
    payload = {"args": [a if not a.startswith(cli.dir) else "<file>" for a in args], "file": case.data}
    ctx.case((tuple(payload["args"]), case.data), True, sample={"args": payload["args"]})
    ctx.count(f"refusal:{which}")
    code, out, err = cli.run(args)
    what = f"`tpmstream {' '.join(payload['args'])}`"
    if code == 0:
        ctx.problem(f"C19:refusal:{which}:exit0", f"{what}: exits 0 (stdout {out[:200]!r})", payload)
        return
    if which != "response-without-command" and "Did you mean" not in err:
        ctx.problem(f"C19:refusal:{which}:no-suggestion", f"{what}: no suggestion on stderr: {err[-300:]!r}", payload)
        return
    if which == "response-without-command" and "--command" not in err:
        ctx.problem(f"C19:refusal:{which}:no-error", f"{what}: stderr does not ask for --command: {err[-300:]!r}", payload)
        return
    if out.strip():
        ctx.problem(f"C19:refusal:{which}:decoded-anyway", f"{what}: refused but printed {out[:200]!r}", payload)


def type_case(ctx, L, cli, case):
    """`type` must list exactly the types under which the file decodes strictly."""
    O.reset_state()
    content = case.data
    expected = []
    names = sorted(n for n in O._REGISTRY if n in L.snap["primitives"] or (n in L.snap["structs"] and L.snap["structs"][n]["kind"] != "union" and n != "TPM2B_ENCRYPTED_PARAM"))
    for n in names + ["Command"]:
        if O.run_decode(n, content, strict=True).outcome["kind"] == "ok":
            expected.append(n)
    for cc_name in L.commands:
        code = L.commands[cc_name]["code"]
        if O.run_decode("Response", content, command_code=code, strict=True).outcome["kind"] == "ok":
            expected.append(f"Response (TPM_CC.{cc_name})")
    # the same bytes as binary or as hex text (the listing must not depend on the container)
    import hashlib

    as_hex = hashlib.sha256(content).digest()[0] % 3 == 0
    verb = "ty" if hashlib.sha256(content).digest()[1] % 4 == 0 else "type"
    if as_hex:
        text = " ".join(f"{b:02x}" for b in content).encode() + b"\n"
        args = [verb, cli.file(text), "--in", "hex"]
    else:
        args = [verb, cli.file(content), "--in", "binary"]
    payload = {"args": [verb, "<file>", "--in", "hex" if as_hex else "binary"], "file": content}
    ctx.case(("type", content), True, sample={"args": payload["args"], "file_hex": content.hex()[:80], "decodes_as": expected[:6]})
    ctx.count("type-runs")
    code, out, err = cli.run(args)
    got = [l.strip() for l in out.splitlines() if l.strip()]
    if code != 0:
        ctx.problem("C19:type:exit", f"`tpmstream type` on {content.hex()[:120]}: exit {code}, stderr {err[-300:]!r}", payload)
        return
    if sorted(got) != sorted(expected):
        ctx.problem("C19:type:list", f"`tpmstream type` on {content.hex()[:120]} lists {sorted(set(got) - set(expected))[:5]} in addition and misses {sorted(set(expected) - set(got))[:5]} (strict decodes: {len(expected)}, listed: {len(got)})", payload)


def ambiguous_files(L):
    """Files that decode strictly under many types at once: tiny inputs, and the 10-byte session-less commands without
    handles and parameters, which are also header-only failed responses of every command code."""
    out = [b"\x00", b"\x01", b"\x00\x00", b"\x00\x0b", b"\x00\x00\x00\x00", b"\x40\x00\x00\x07"]
    for name, e in sorted(L.commands.items()):
        if not L.struct(e["command_handles"])["fields"] and not L.struct(e["command_params"])["fields"]:
            out.append(b"\x80\x01\x00\x00\x00\x0a" + e["code"].to_bytes(4, "big"))
    out.append(b"\x80\x01\x00\x00\x00\x0a\x00\x00\x01\x01")  # a failed response (TPM_RC_FAILURE)
    return out


def pty_case(ctx, L, cli, case, columns):
    """`convert` with its output on a (pseudo) terminal of a given width: still exactly the library's lines."""
    import fcntl
    import pty
    import struct
    import termios

    content = case.data
    kind, want = lib_convert("binary", "pretty", case.type, content, case.cc)
    if kind != "text" or case.enc or (case.cc is not None and case.cc not in L.cc_by_code):
        return
    args = ["convert", cli.file(content), "--in", "binary", "--type", case.type]
    if case.type == "Response":
        args += ["--command", L.cc_by_code[case.cc][0]]
    try:
        master, slave = pty.openpty()
        fcntl.ioctl(slave, termios.TIOCSWINSZ, struct.pack("HHHH", 50, columns, 0, 0))
    except OSError:
        ctx.count("pseudo-terminal-unavailable(skipped)")  # no pty devices in this environment: nothing to observe
        return
    env = dict(os.environ, PYTHONPATH=O.SRC, PYTHONHASHSEED="0", PYTHONIOENCODING="utf-8", COLUMNS=str(columns), TERM="xterm")
    p = subprocess.Popen([sys.executable, "-m", "tpmstream"] + args, stdout=slave, stderr=subprocess.PIPE, stdin=subprocess.DEVNULL, env=env, cwd=cli.dir)
    os.close(slave)
    chunks = []
    while True:
        try:
            b = os.read(master, 65536)
        except OSError:
            break
        if not b:
            break
        chunks.append(b)
    code = p.wait(timeout=300)
    err = p.stderr.read().decode("utf-8", "replace")
    os.close(master)
    out = b"".join(chunks).decode("utf-8", "replace").replace("\r\n", "\n")
    payload = {"args": ["convert", "<file>"] + args[2:], "file": content, "type": case.type, "cc": case.cc, "in": "binary", "out": "pretty", "terminal_columns": columns}
    ctx.case(("pty", columns, case.type, content), True, sample={"args": payload["args"], "terminal_columns": columns, "file_hex": content.hex()[:80]})
    ctx.count(f"pty-runs:{columns}")
    if code != 0:
        ctx.problem("C19:convert:exit", f"`tpmstream {' '.join(payload['args'])}` on a {columns}-column terminal: exit status {code}, stderr {err[-300:]!r}", payload)
        return
    if norm_text(out) != norm_text(want):
        a, b2 = norm_text(out).splitlines(), norm_text(want).splitlines()
        d = next((i for i, (x, y) in enumerate(zip(a, b2)) if x != y), min(len(a), len(b2)))
        ctx.problem("C19:convert:terminal", f"on a {columns}-column terminal output line {d} is {a[d] if d < len(a) else None!r}, the library produces {b2[d] if d < len(b2) else None!r}", payload)


def special_files(L):
    """(type, bytes): well-formed binary inputs whose last or first bytes are ones a text-minded reader might strip or
    stop at (line ends, blanks, NUL, Ctrl-Z, 0xFF), as payload of a plain byte buffer."""
    out = []
    for payload in (b"\n", b"A\r\n", b"\r", b"  ", b"\t", b"\x00", b"\x00\x00\x00\x00", b"\x1a", b"\xff", b"\n\n\n\n", b"0a", b" 41 "):
        out.append(("TPM2B_MAX_BUFFER", len(payload).to_bytes(2, "big") + payload))
    out.append(("UINT16", b"\x0d\x0a"))
    out.append(("UINT32", b"\x20\x20\x20\x0a"))
    # every primitive width (1, 2, 4 and 8 bytes, signed and unsigned) and a structure mixing them
    out.append(("BYTE", b"\x0a"))
    out.append(("INT8", b"\xff"))
    out.append(("INT32", b"\xff\xff\xf1\xf0"))
    out.append(("UINT64", bytes.fromhex("0102030405060708")))
    out.append(("TPMS_CLOCK_INFO", bytes.fromhex("00000000000f4240" "00000007" "00000002" "01")))
    return out


def special_file_case(ctx, L, cli, tname, content, fmt_out):
    args = ["convert", cli.file(content), "--in", "binary", "--out", fmt_out, "--type", tname]
    judge_convert(ctx, L, cli, args, "binary", fmt_out, tname, content, None, True)


def long_output_case(ctx, L, cli):
    """One `convert` call that prints more than 12 000 lines (three exchanges with 4096 random bytes each)."""
    b = gen.Builder(L, gen.FixedChooser(), big=False, rare=False)
    toks, meta = b.command("GetRandom", 1, want_decrypt=False, want_encrypt=False)
    cmd = gen.Case("Command", toks, L, meta=meta).data
    rsp = gen.huge_messages(L)[0].data
    content = (cmd + rsp) * 3
    ctx.count("long-output-runs")
    for fmt_out in ("events", "pretty"):
        args = ["convert", cli.file(content), "--in", "binary", "--out", fmt_out]
        if not judge_convert(ctx, L, cli, args, "binary", fmt_out, "CommandResponseStream", content, None, True):
            return


def example_case(ctx, L, cli, name):
    from tpmstream.io.pretty import Pretty

    is_cc = name in L.commands
    args = ["example", name]
    payload = {"args": args}
    ctx.count("example-runs")
    code, out, err = cli.run(args, timeout=900)
    if code != 0:
        ctx.problem("C19:example:exit", f"`tpmstream example {name}`: exit {code}, stderr {err[-300:]!r}", payload)
        return
    blocks = [b for b in strip_ansi(out).split("\n\n") if b.strip()]
    ctx.case(("example", name, len(blocks)), True, sample={"args": args, "blocks": len(blocks)})
    ctx.count("example-blocks", len(blocks))
    for b in blocks:
        lines = b.strip("\n").split("\n")
        head, rows = lines[0], lines[1:]
        tname, _, hexpart = head.partition(":")
        try:
            data = bytes.fromhex("".join(hexpart.split()))
        except ValueError:
            ctx.problem("C19:example:block-header", f"`example {name}`: block header {head[:120]!r}", payload)
            return
        if is_cc:
            if tname not in ("Command", "Response"):
                ctx.problem("C19:example:wrong-type", f"`example {name}` printed a block of type {tname}", payload)
                return
            cands = [("Command", None, False)] if tname == "Command" else [("Response", L.commands[name]["code"], False), ("Response", L.commands[name]["code"], True)]
        else:
            if tname != name:
                ctx.problem("C19:example:wrong-type", f"`example {name}` printed a block of type {tname}", payload)
                return
            cands = [(name, None, False)]
        ok = False
        why = None
        for t, cc, enc in cands:
            # the repository's captures hold a few messages with out-of-range values; the tool shows them (decoded in warn
            # mode, warnings are not part of an example), so the re-decode is lenient and its warnings are left out as well
            obs = O.run_decode(t, data, command_code=cc, enc=enc, strict=False)
            if obs.outcome["kind"] != "ok":
                why = f"does not decode as {t}: {obs.outcome['kind']}"
                continue
            if obs.warnings:
                ctx.count("example-blocks-with-warnings")
                if any(w["kind"] != "value" for _, w in obs.warnings):
                    why = f"re-decodes with structural problems: {[w['kind'] for _, w in obs.warnings]}"
                    continue
            if is_cc and t == "Command" and not any(e[0] == ".commandCode" and e[2] == L.commands[name]["code"] for e in obs.events):
                why = "command code in the block is not the one asked for"
                continue
            from tpmstream.common.event import MarshalEvent

            want = [strip_ansi(r).rstrip() for r in Pretty.unmarshal([e for e in obs.raw if isinstance(e, MarshalEvent)])]
            if want == [r.rstrip() for r in rows]:
                ok = True
                break
            d = next((i for i, (x, y) in enumerate(zip(want, rows)) if x != y.rstrip()), min(len(want), len(rows)))
            why = f"re-decoding shows row {d} {want[d] if d < len(want) else None!r}, the tool printed {rows[d] if d < len(rows) else None!r}"
        if not ok:
            ctx.problem("C19:example:block", f"`example {name}`: block {head[:100]!r} {why}", dict(payload, block=b[:2000]))
            return


def run_shard(ctx):
    L = layout()
    q = ctx.quick()
    cli = Cli()
    try:
        ctx.run_given(st.tuples(gen.streams(L, max_pairs=2), st.data(), st.booleans()), lambda ex: convert_case(ctx, L, cli, ex), ctx.share(144 if q else 1600), name="convert-streams")
        ctx.run_given(st.tuples(gen.messages(L), st.data()), lambda ex: typed_case(ctx, L, cli, ex), ctx.share(64 if q else 800), name="convert-typed")
        ctx.run_given(st.tuples(gen.structures(L), st.data()), lambda ex: refusal_case(ctx, L, cli, ex), ctx.share(40 if q else 300), name="refusals")
        ctx.run_given(st.one_of(gen.structures(L), gen.commands(L, sessions=None)), lambda c: type_case(ctx, L, cli, c), ctx.share(8 if q else 120), name="type")

        class _F:
            def __init__(self, data):
                self.data = data

        for k, (tname, content) in enumerate(special_files(L)):
            if k % ctx.nshards == ctx.shard:
                for fmt_out in ("binary", "pretty") if q else ("binary", "pretty", "events"):
                    ctx.run_plain(lambda tname=tname, content=content, fmt_out=fmt_out: special_file_case(ctx, L, cli, tname, content, fmt_out), "special-bytes")
        if ctx.shard == 14:
            ctx.run_plain(lambda: long_output_case(ctx, L, cli), "long-output")
        amb = ambiguous_files(L)
        for k, data in enumerate(amb):
            if k % ctx.nshards == ctx.shard and (not q or (k + ctx.seed) % 2 == 0 or len(data) == 10):
                ctx.run_plain(lambda data=data: type_case(ctx, L, cli, _F(data)), "type-ambiguous")
        if ctx.shard in (3, 7, 11):
            collected = []
            ctx.run_given(gen.messages(L), collected.append, 2, name="for-pty")
            for c in collected:
                for columns in (80, 180):
                    ctx.run_plain(lambda c=c, columns=columns: pty_case(ctx, L, cli, c, columns), "pty")
        names = sorted(L.commands)
        if q:
            import hashlib

            rank = lambda n: hashlib.sha256(f"{ctx.seed}/{n}".encode()).hexdigest()  # noqa: E731
            # type names that other registered types derive from: a query for X must not list the derived types' examples
            bases = sorted(n for n, t in O._REGISTRY.items() if n in L.snap["primitives"] or n in L.snap["structs"] if any(u is not t and isinstance(u, type) and issubclass(u, t) for u in O._REGISTRY.values()))
            bases = [n for n in bases if L.snap["structs"].get(n, {}).get("kind") != "union"]
            pick = sorted(names, key=rank)[:3] + sorted(bases, key=rank)[:2] + sorted(["TPMS_AUTH_COMMAND", "TPMT_PUBLIC", "TPMS_PCR_SELECTION", "TPMT_HA"], key=rank)[:1]
        else:
            structs = sorted(n for n, s in L.snap["structs"].items() if s["kind"] != "union" and n != "TPM2B_ENCRYPTED_PARAM")
            bases = sorted(n for n, t in O._REGISTRY.items() if n in L.snap["primitives"] or n in L.snap["structs"] if any(u is not t and isinstance(u, type) and issubclass(u, t) for u in O._REGISTRY.values()))
            bases = [n for n in bases if L.snap["structs"].get(n, {}).get("kind") != "union"]
            pick = names + structs[:: max(1, len(structs) // 40)] + bases
        for name in ctx.mine(pick):
            ctx.run_plain(lambda name=name: example_case(ctx, L, cli, name), f"example:{name}")
    finally:
        cli.close()


def replay(ctx, payload):
    L = layout()
    cli = Cli()
    try:
        args = payload["args"]
        if args[0] == "example":
            if args[1] in L.commands or args[1] in O._REGISTRY:
                example_case(ctx, L, cli, args[1])
            return
        if args[0] in ("type", "ty"):
            class _C:
                data = payload["file"]

            type_case(ctx, L, cli, _C)
            return
        real = [args[0], cli.file(payload["file"])] + args[2:]  # replays deliver the bytes as one file
        if "type" in payload and "in" in payload:
            judge_convert(ctx, L, cli, real, payload["in"], payload["out"], payload["type"], payload["file"], payload.get("cc"), True)
    finally:
        cli.close()
