"""Oracles of C06 (documented outcome), C07 (strict vs warn agreement) and C08 (warn mode keeps decoding, tiling)."""
from .. import observe as O
from ..compare import DETAIL_FIELDS
from ..refdec import ELLIPSIS, ref_decode
from ..tiling import check_tiling

DOCUMENTED_KINDS = {"ok", "depleted", "superfluous", "value", "exceeded", "subceeded", "anticipated", "encmismatch", "constraint-other"}


def payload_of(t, cc, enc, data):
    return {"type": t, "cc": cc, "enc": bool(enc), "data": bytes(data)}


def describe(t, cc, enc, data):
    return f"input {bytes(data).hex()} as {t} cc={cc} enc={enc}"


# ---------------------------------------------------------------------------------------------- C06
def judge_c06(ctx, L, t, cc, enc, data, how=""):
    O.reset_state()
    obs = O.run_decode(t, data, command_code=cc, enc=enc, strict=True)
    o = obs.outcome
    n_prims = sum(1 for e in obs.events if e[0][0:1] != "!" and e[2] != ELLIPSIS)
    ctx.case((t, cc, enc, data), len(obs.events) >= 4, sample={"type": t, "cc": cc, "enc": enc, "hex": bytes(data).hex()[:128], "how": how, "outcome": o["kind"], "events": len(obs.events)} if len(obs.events) >= 6 else None)
    ctx.count(f"outcome:{o['kind']}")
    if how:
        ctx.count(f"how:{how}")
    ctx.add("types", t)
    if o["kind"] == "crash":
        ctx.problem(f"C06:crash:{o['class']}@{o['where']}", f"strict decoding failed with an internal error {o['class']}: {o['message']}; {describe(t, cc, enc, data)}", payload_of(t, cc, enc, data))
        return None
    if o["kind"] == "runaway":
        ctx.problem("C06:runaway", f"decoding emitted {o['events']} events for {len(data)} input bytes without terminating; {describe(t, cc, enc, data)}", payload_of(t, cc, enc, data))
        return None
    if o["kind"] not in DOCUMENTED_KINDS:
        ctx.problem(f"C06:undocumented:{o['kind']}", f"{o}; {describe(t, cc, enc, data)}", payload_of(t, cc, enc, data))
        return None
    if obs.pulled is not None and obs.pulled > len(data):
        ctx.problem("C06:overpull", f"pulled {obs.pulled} bytes from an input of {len(data)}; {describe(t, cc, enc, data)}", payload_of(t, cc, enc, data))
        return None
    if o.get("remaining_error"):
        ctx.problem("C06:remaining-unusable", f"{o['remaining_error']}; {describe(t, cc, enc, data)}", payload_of(t, cc, enc, data))
        return None
    return obs


# ---------------------------------------------------------------------------------------------- C07
def _same_details(a, b):
    if a["kind"] != b["kind"]:
        return f"class {a['kind']} vs {b['kind']}"
    for f in DETAIL_FIELDS.get(a["kind"], []):
        if a.get(f) != b.get(f):
            return f"{f}: {a.get(f)!r} vs {b.get(f)!r}"
    return None


def judge_c07(ctx, L, t, cc, enc, data, how=""):
    O.reset_state()
    s = O.run_decode(t, data, command_code=cc, enc=enc, strict=True)
    O.reset_state()
    w = O.run_decode(t, data, command_code=cc, enc=enc, strict=False)
    so = s.outcome
    ctx.case((t, cc, enc, data), so["kind"] not in ("ok", "crash", "runaway"), sample={"type": t, "cc": cc, "hex": bytes(data).hex()[:128], "strict": so["kind"], "warn_warnings": [x[1]["kind"] for x in w.warnings][:4]} if so["kind"] not in ("ok",) and len(s.events) >= 3 else None)
    ctx.count(f"strict:{so['kind']}")
    if how:
        ctx.count(f"how:{how}")
    pl = payload_of(t, cc, enc, data)
    if so["kind"] in ("crash", "runaway"):
        if w.outcome["kind"] == "ok" and not w.warnings:
            # "if warn mode emits no warning, strict mode accepts" - whatever strict mode did instead of accepting
            ctx.problem(f"C07:silent-warn:{so['kind']}", f"warn mode decodes the input completely without any warning, but strict mode does not accept it: {_b(so)}; {describe(t, cc, enc, data)}", pl)
            return False
        ctx.count("skipped:strict-internal-error(C06)")
        return True
    first = w.warnings[0] if w.warnings else None
    if so["kind"] == "ok":
        if first is not None:
            ctx.problem(f"C07:accepted-but-warned:{first[1]['kind']}", f"strict mode accepts but warn mode warns {first[1]}; {describe(t, cc, enc, data)}", pl)
            return False
        if w.outcome["kind"] != "ok" or w.events != s.events:
            ctx.problem("C07:accepted-events-differ", f"strict mode accepts with {len(s.events)} events, warn mode: {w.outcome['kind']} with {len(w.events)} events; {describe(t, cc, enc, data)}", pl)
            return False
        return True
    # strict raised
    if first is None:
        if w.outcome["kind"] == "ok":
            ctx.problem(f"C07:silent-warn:{so['kind']}", f"strict mode raises {so['kind']} but warn mode emits no warning; {describe(t, cc, enc, data)}", pl)
        elif allowed_abort(L, t, w) and _same_details(so, w.outcome) is None and w.events == s.events:
            # C08's documented exception (unknown command code / selector without member): warn mode cannot go on and
            # raises - the same error after the same events as strict mode; there is no first warning to compare
            ctx.count("warn-aborts-like-strict(C08 exception)")
            return True
        else:
            ctx.problem(f"C07:warn-fails-before-warning:{w.outcome['kind']}", f"strict mode raises {so['kind']}; warn mode ends with {w.outcome} before any warning; {describe(t, cc, enc, data)}", pl)
        return False
    idx, wd = first
    before = w.events[:idx]
    expect = list(s.events)
    if so["kind"] == "value":
        # the offending event is emitted first, then the warning
        if not before or before[:-1] != expect or before[-1][0] != so["constraint_path"] or before[-1][2] != so["value"]:
            ctx.problem("C07:value:events", f"warn mode's events before its first warning are not strict mode's events + the offending event ({so['constraint_path']}={so['value']}): strict {len(expect)} events, warn {before[-3:]}; {describe(t, cc, enc, data)}", pl)
            return False
    elif before != expect:
        d = next((i for i, (a, b) in enumerate(zip(before, expect)) if a != b), min(len(before), len(expect)))
        ctx.problem(f"C07:{so['kind']}:events", f"events before the first problem differ at {d}: warn {before[d] if d < len(before) else None}, strict {expect[d] if d < len(expect) else None}; {describe(t, cc, enc, data)}", pl)
        return False
    diff = _same_details(so, wd)
    if diff:
        ctx.problem(f"C07:{so['kind']}:details", f"first warning differs from the strict error: {diff}; strict {_b(so)}, warn {_b(wd)}; {describe(t, cc, enc, data)}", pl)
        return False
    return True


def _b(o):
    return {k: (v.hex() if isinstance(v, bytes) else v) for k, v in o.items() if not k.startswith("_") and k != "message"}


# ---------------------------------------------------------------------------------------------- C08
def allowed_abort(L, t, obs):
    """Is the exception that ended a warn-mode decode one of the two C08 allows?  (unknown command code / selector without member)"""
    o = obs.outcome
    if o["kind"] != "value":
        return False
    if o["type"] == "TPM_CC" and o["value"] not in L.cc_by_code:
        # unknown command code of a command, or a response whose command (code) is not known
        return True
    # selector without member: the union event at the reported path is the last structural event
    for ev in reversed(obs.events):
        if len(ev) != 3:
            continue
        p, tn, v = ev
        if p == o["constraint_path"] and v == ELLIPSIS:
            try:
                u = L.struct(tn)
            except KeyError:
                return False
            return u.get("kind") == "union" and L.select(tn, o["value"]) is None
    return False


def judge_c08(ctx, L, t, cc, enc, data, how="", value_only=False):
    O.reset_state()
    w = O.run_decode(t, data, command_code=cc, enc=enc, strict=False)
    o = w.outcome
    kinds = [x[1]["kind"] for x in w.warnings]
    size_warn_then_field = False
    seen_size = False
    for e in w.events:
        if e[0] == "!warning":
            if e[1] in ("SizeConstraintExceededError", "SizeConstraintSubceededError"):
                seen_size = True
        elif seen_size and e[2] != ELLIPSIS:
            size_warn_then_field = True
            break
    ctx.case((t, cc, enc, data), size_warn_then_field or len(kinds) >= 2, sample={"type": t, "cc": cc, "hex": bytes(data).hex()[:128], "how": str(how)[:80], "warnings": kinds[:5]} if size_warn_then_field else None)
    ctx.count(f"outcome:{o['kind']}")
    for k in set(kinds):
        ctx.count(f"warning:{k}")
    if size_warn_then_field:
        ctx.count("resumed-after-size-warning")
    pl = payload_of(t, cc, enc, data)
    if o["kind"] != "ok":
        if allowed_abort(L, t, w):
            ctx.count("allowed-abort")
            return True
        sig = f"C08:aborted:{o['kind']}" + (f":{o.get('class')}@{o.get('where')}" if o["kind"] == "crash" else "")
        ctx.problem(sig, f"warn mode aborted with {_b(o)} after {len(w.events)} events; {describe(t, cc, enc, data)}", pl)
        return False
    j = check_tiling(L, bytes(data), w)
    if j:
        ctx.problem(f"C08:tiling:{j[0]}", f"{j[1]}; {describe(t, cc, enc, data)}", pl)
        return False
    if not kinds:
        # warn mode saw no problem at all: then there must be none, i.e. the reference (strict) interpretation accepts.
        # (C07 ties warn mode to strict mode of the same tree; this ties it to the independent model, so a problem that
        # both modes stop reporting is still noticed.)
        r0 = ref_decode(L, t, data, command_code=cc, enc=enc)
        if not r0.accepted and r0.kinds != ["undefined"]:
            ctx.problem(f"C08:silent-on:{'+'.join(r0.kinds)}", f"warn mode decoded the input without any warning, but it has a problem: {[{k: (v.hex() if isinstance(v, bytes) else v) for k, v in o.items() if k not in ('consumed', 'offset', 'width')} for o in r0.outcomes][:2]}; {describe(t, cc, enc, data)}", pl)
            return False
        ctx.count("silent-and-model-accepts")
    if value_only or (kinds and all(k == "value" for k in kinds)):
        # lenient field-by-field interpretation with one warning directly after each offending event
        ref = ref_decode(L, t, data, command_code=cc, enc=enc, check_values=False)
        if ref.accepted:
            expected = []
            fault_at = {i: f for i, *f in [(x[0], x[1], x[2], x[3]) for x in ref.value_faults]}
            for i, ev in enumerate(ref.events):
                expected.append(ev)
                if i in fault_at:
                    expected.append(("!warning", "ValueConstraintViolatedError"))
            if w.events != expected:
                d = next((i for i, (a, b) in enumerate(zip(w.events, expected)) if a != b), min(len(w.events), len(expected)))
                ctx.problem("C08:lenient:events", f"value-only faults: event {d} is {w.events[d] if d < len(w.events) else None}, lenient interpretation gives {expected[d] if d < len(expected) else None}; {describe(t, cc, enc, data)}", pl)
                return False
            got = [(x[1]["constraint_path"], x[1]["type"], x[1]["value"]) for x in w.warnings]
            want = [(p, tn, v) for _, p, tn, v in ref.value_faults]
            if got != want:
                ctx.problem("C08:lenient:warning-details", f"value warnings {got} != offending leaves {want}; {describe(t, cc, enc, data)}", pl)
                return False
            ctx.count("lenient-model-compared")
    return True
