"""C11 - events and Python objects convert into each other without loss (round-trip relations on one decode)."""
from .. import observe as O
from ..refdec import ELLIPSIS
from .common import ReplayCase, case_payload, classify_wellformed, coverage_finalize, first_diff, layout, wellformed_campaign

ID = "C11"
LEVEL = "exploration"
MIX = True  # a share of the decodes goes through the other front ends and byte sources (context.py)
MIX_EXCLUDE = ("pcapng",)  # these checks look at the object the decoder returns; the pcapng front end does not pass it on
HISTORY = True  # every second shard first runs a prelude of earlier library use (history.py)
OLANE = True  # two more shards run in an interpreter started with -O (runner.start_olane)
RULE = (
    "every hypothesis-generated well-formed encoding (coverage pass over all types / command codes / session shapes / encryption / "
    "failed responses + random, biased to empty structured TPM2Bs and payload-less union arms); oracle = round-trip relations on one "
    "decode: object returned by the decoder == object rebuilt from the events; obj_to_events of either == the decoded event list "
    "(length, path, declared type, value, value class); re-encoding either gives the input; Canonical(bytes) and Canonical(object) "
    "agree. Non-trivial = the value tree holds an absent optional part (empty structured TPM2B, payload-less arm, no session area, "
    "failed response), a list or a union."
)
ASSUMPTIONS = ["only inputs that strict decoding accepts are in the domain (acceptance itself is C01)"]


def ev_key(ev):
    return O.event_tuple(ev) + (O.value_class(ev),)


def compare_events(ctx, tag, got, want, payload):
    g = [ev_key(e) for e in got]
    w = [ev_key(e) for e in want]
    d = first_diff(g, w)
    if d is not None:
        a = g[d] if d < len(g) else None
        b = w[d] if d < len(w) else None
        comp = "length" if a is None or b is None else "path" if a[0] != b[0] else "type" if a[1] != b[1] else "value" if a[2] != b[2] else "class"
        ctx.problem(f"C11:{tag}:{comp}", f"event {d}: {tag} gives {a}, decoder emitted {b}; input {payload['data'].hex()} as {payload['type']}", payload)
        return False
    # declared types must be the very same classes (also for synthesized encrypted layouts)
    for i, (x, y) in enumerate(zip(got, want)):
        if x.type != y.type:
            ctx.problem(f"C11:{tag}:type-object", f"event {i} {g[i]}: declared type objects differ ({x.type!r} vs {y.type!r})", payload)
            return False
        if x != y:
            ctx.problem(f"C11:{tag}:event-eq", f"event {i} {g[i]}: events do not compare equal", payload)
            return False
    return True


def check_case(ctx, L, case):
    from tpmstream.common.canonical import Canonical
    from tpmstream.common.object import events_to_obj, obj_to_events
    from tpmstream.io.binary import Binary
    from tpmstream.spec.structures.constants import TPM_CC

    O.reset_state()
    payload = case_payload(case)
    classify_wellformed(ctx, case)
    flags = set(case.meta.get("flags", []))
    nontrivial = bool(
        flags & {"empty_structured_tpm2b", "null_arm"}
        or case.meta.get("unions")
        or any(n for _, n in case.meta.get("lists", []))
        or case.meta.get("failed")
        or (case.type in ("Command", "Response") and case.meta.get("sessions") is None)
    )
    ctx.case((case.type, case.cc, case.enc, case.data), nontrivial, sample=case.brief())
    obs = O.run_decode(case.type, case.data, command_code=case.cc, enc=case.enc, strict=True)
    if obs.outcome["kind"] != "ok":
        ctx.count("not-accepted")
        return
    events = obs.raw
    obj_dec = obs.obj
    is_prim = L.is_prim(case.type)
    cc = TPM_CC(case.cc) if case.cc is not None else None
    if any(t.endswith("#enc") for _, t, _ in case.events) and len(case.data) % 3 == 0:
        # events and objects are kept while the process goes on decoding: every other encrypted parameter layout is used
        # once between the decode and the conversions
        from .. import history

        history.churn()
        ctx.count("conversions-after-other-decodes")

    obj_ev = ctx.guard(lambda: events_to_obj(list(events), command_code=cc), "C11:events_to_obj", payload)
    if obj_ev is None and not is_prim:
        if obj_dec is not None:
            ctx.problem("C11:rebuilt-none", f"events_to_obj returned None; input {case.data.hex()} as {case.type}", payload)
        return
    eq = ctx.guard(lambda: bool(obj_dec == obj_ev), "C11:obj-eq", payload)
    if eq is False:
        ctx.problem("C11:object-differs", f"decoder object != object rebuilt from events: {obj_dec!r} vs {obj_ev!r}; input {case.data.hex()} as {case.type}", payload)
        return
    for tag, obj in (("from-decoder-object", obj_dec), ("from-rebuilt-object", obj_ev)):
        back = ctx.guard(lambda: list(obj_to_events(obj)), f"C11:obj_to_events:{tag}", payload)
        if back is None:
            return
        if not compare_events(ctx, tag, back, events, payload):
            return
        raw = ctx.guard(lambda: b"".join(Binary.unmarshal(back)), f"C11:reencode:{tag}", payload)
        if raw is not None and raw != case.data:
            ctx.problem(f"C11:{tag}:bytes", f"re-encoding the object gives {raw.hex()}, input {case.data.hex()}", payload)
            return
    # Canonical: bytes -> events/object, object -> events
    def canon():
        c1 = Canonical(case.data, format_in=Binary, tpm_type=O.lib_type(case.type), command_code=cc, abort_on_error=True)
        return c1, list(c1.events), c1.object

    if not case.enc and not is_prim:
        res = ctx.guard(canon, "C11:canonical-bytes", payload)
        if res is None:
            return
        c1, ev1, ob1 = res
        if not compare_events(ctx, "canonical-bytes", ev1, events, payload):
            return
        if ctx.guard(lambda: bool(ob1 == obj_dec), "C11:canonical-obj-eq", payload) is False:
            ctx.problem("C11:canonical-object", f"Canonical(bytes).object differs from the decoder's object; input {case.data.hex()} as {case.type}", payload)
            return
        ev2 = ctx.guard(lambda: list(Canonical(obj_dec).events), "C11:canonical-object-events", payload)
        if ev2 is not None:
            compare_events(ctx, "canonical-object", ev2, events, payload)


def run_shard(ctx):
    L = layout()
    from .. import gen

    if ctx.shard % 2 == 0:
        # a list of ~1000 structures (several thousand events), judged outside hypothesis
        collected = []
        ctx.run_given(gen.long_lists(L), collected.append, 1 if ctx.quick() else 3, name="long-list")
        for c in collected:
            ctx.run_plain(lambda c=c: check_case(ctx, L, c), "long-list")
    # very long buffers / lists (4094..8193 elements; in the thorough tier up to the UINT16 limit) and a response with
    # 4096 random bytes, judged outside hypothesis
    huge = [c for c in gen.huge_cases(L) if len(c.data) <= (9000 if ctx.quick() else 10**6)] + gen.huge_messages(L)[: 1 if ctx.quick() else 3]
    for c in ctx.mine(huge):
        ctx.count("huge-encodings")
        ctx.run_plain(lambda c=c: check_case(ctx, L, c), f"huge:{c.type}:{len(c.data)}")
    wellformed_campaign(ctx, L, lambda case: check_case(ctx, L, case), 2 if ctx.quick() else 5, 4000 if ctx.quick() else 50000)


def finalize(merged):
    return coverage_finalize(merged, need_arms=False)


def replay(ctx, payload):
    L = layout()
    check_case(ctx, L, ReplayCase(L, payload))
