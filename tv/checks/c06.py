"""C06 - decoding arbitrary bytes terminates with a documented outcome."""
from .. import arb, observe as O
from .common import layout
from .modes import judge_c06

ID = "C06"
LEVEL = "exploration"
MIX = True  # a share of the decodes goes through the other front ends and byte sources (context.py)
HISTORY = True  # every second shard first runs a prelude of earlier library use (history.py)
OLANE = True  # two more shards run in an interpreter started with -O (runner.start_olane)
RULE = (
    "hypothesis-generated arbitrary inputs: random bytes, low-entropy bytes over {00 01 02 10 80 ff}, havoc-mutated well-formed "
    "messages, well-formed messages and repository corpus packets decoded as the wrong type, and well-formed messages with 1-3 "
    "injected faults; x all 231 non-union structure types + Command + Response (all 117 command codes, both encryption flags) + "
    "CommandResponseStream. Oracle: strict decoding terminates (event budget, counting source) and completes or raises a "
    "constraint-violation error / input depleted / input superfluous; any other exception is a violation bucketed by (class, "
    "innermost tpmstream frame). Non-trivial = the decode emitted >= 4 events before its outcome; distinct = (type, arguments, bytes)."
)
ASSUMPTIONS = ["Response is always decoded with a valid command code (D-10)"]


def live_selector_sweep(ctx, L):
    """Every structure with a union member x every selector value its selector type accepts *on the live tree* (a
    revision that adds algorithm ids makes more values valid than the pinned layout knows), followed by zero bytes, a
    short pattern and nothing: strict decoding must end with a documented outcome for each."""
    names = sorted(n for n, s_ in L.snap["structs"].items() if s_.get("selectors"))
    for sname in ctx.mine(names):
        s_ = L.snap["structs"][sname]
        for sf in sorted(set(s_["selectors"].values())):
            stype = L.field_type(sname, sf)
            if not L.is_prim(stype) or [f[0] for f in s_["fields"]][0] != sf:
                continue  # (the selector leads the structure in every pinned case but TPMS_ATTEST-like ones, which the random campaigns cover)
            w = L.width(stype)
            if w > 2:
                continue
            T = O.lib_type(stype)
            live = [v for v in range(0, 1 << (8 * w)) if ctx.guard(lambda v=v: bool(T(v).is_valid()), "C06:is_valid", {"type": stype, "value": v})]
            for v in live:
                for tail in (bytes(96), bytes(range(1, 40)), b""):
                    if not judge_c06(ctx, L, sname, None, False, v.to_bytes(w, "big") + tail, "live-selector"):
                        return
            ctx.count("live-selector-values", len(live))


def run_shard(ctx):
    L = layout()
    q = ctx.quick()
    ctx.run_plain(lambda: live_selector_sweep(ctx, L), "live-selector-sweep")
    ctx.run_given(arb.arbitrary_input(L), lambda x: judge_c06(ctx, L, x[0], x[1], x[2], x[3], x[4]), ctx.share(24000 if q else 400000), name="arbitrary")
    ctx.run_given(arb.faulted_input(L), lambda x: judge_c06(ctx, L, x[0], x[1], x[2], x[3], "faulted"), ctx.share(8000 if q else 150000), name="faulted")
    # very long buffers / lists (around 4096, 8192 and the UINT16 limit), well-formed and cut / extended by one byte
    from .. import gen

    for case in ctx.mine(gen.huge_cases(L)):
        for data, how in ((case.data, "huge"), (case.data[:-1], "huge-cut"), (case.data + b"\x00", "huge-suffix")):
            ctx.run_plain(lambda data=data, how=how, case=case: judge_c06(ctx, L, case.type, None, False, data, how), f"huge:{case.type}")
    # one long well-formed stream per shard pair, decoded outside hypothesis (which raises the recursion limit in a test)
    if ctx.shard % 4 == 0:
        collected = []
        ctx.run_given(gen.long_streams(L), collected.append, 1, name="long-stream")
        for c in collected:
            ctx.run_plain(lambda c=c: judge_c06(ctx, L, c.type, None, False, c.data, "long-stream"), "long-stream")
    # every type at least once on low-entropy bytes
    from hypothesis import strategies as st

    for t in ctx.mine(arb.decodable_types(L)):
        cc = 0x17B if t == "Response" else None
        ctx.run_given(st.lists(st.sampled_from(list(arb.LOW)), max_size=24).map(bytes), lambda d, t=t, cc=cc: judge_c06(ctx, L, t, cc, False, d, "per-type"), 6 if q else 40, name=f"type:{t}")

    if not ctx.quick():
        from .common import fuzz_campaign

        ctx.run_plain(lambda: fuzz_campaign(ctx, "c06", 150000), "libfuzzer")


def finalize(merged):
    L = layout()
    missing = set(arb.decodable_types(L)) - set(merged["sets"].get("types", ()))
    if missing:
        return {"harness_error": f"types never decoded: {sorted(missing)[:8]}"}
    return {}


def replay(ctx, payload):
    judge_c06(ctx, layout(), payload["type"], payload.get("cc"), payload.get("enc"), payload["data"])
