"""C05 - input length mismatches are reported as depleted / superfluous, never absorbed (every cut point, every suffix)."""
from hypothesis import strategies as st

from .. import gen
from .common import layout, model_for_case
from .strictdiff import replay_generic, report, strict_pair

ID = "C05"
LEVEL = "fault_enumeration"
RULE = (
    "every truncation point 0..len-1 of every hypothesis-generated well-formed message (all structure types, commands, responses) "
    "and command/response stream, appended suffixes of 1..8 bytes, and the empty input for every type. Oracle: reference strict "
    "decoder - depleted after exactly the events of the complete fields (zero-width structural events before the incomplete field "
    "optional), carrying the command code of the last command decoded (None if none); superfluous carrying exactly the surplus and "
    "the command code; a stream may end cleanly only at a message boundary. Non-trivial = the cut lies inside a header, a nested "
    "buffer or a session area, or the type is not Command; distinct = (type, arguments, bytes)."
)
ASSUMPTIONS = ["an empty input for CommandResponseStream is a stream of zero messages (D-7)", "a cut that also changes which size error is due is judged by the model like any other input"]


def check_case(ctx, L, ex):
    case, suffix = ex
    model_for_case(L, case)
    ctx.count("messages")
    ctx.add("types", case.type)
    n = len(case.data)
    for cut in range(0, n):
        data = case.data[:cut]
        ref, obs = strict_pair(L, case.type, data, case.cc, case.enc)
        nontrivial = case.type != "Command" or cut < 10 or any(r["start"] <= cut < r["start"] + r["max"] and r["path"].count(".") > 1 for r in ref.regions)
        ctx.case((case.type, case.cc, case.enc, data), nontrivial, sample={"type": case.type, "cut": cut, "of": n, "model": ref.kinds, "hex": data.hex()[:120]} if cut == n // 2 else None)
        for k in ref.kinds:
            ctx.count(f"cut:{k}")
        if not report(ctx, ID, L, case.type, data, case.cc, case.enc, ref, obs, extra=f"cut at {cut} of {n}"):
            return
    for k in sorted({1, 2, len(suffix)}):
        if not 1 <= k <= len(suffix):
            continue
        data = case.data + suffix[:k]
        ref, obs = strict_pair(L, case.type, data, case.cc, case.enc)
        ctx.case((case.type, case.cc, case.enc, data), True, sample={"type": case.type, "suffix": suffix[:k].hex(), "model": ref.kinds} if k == len(suffix) else None)
        for kk in ref.kinds:
            ctx.count(f"suffix:{kk}")
        if not report(ctx, ID, L, case.type, data, case.cc, case.enc, ref, obs, extra=f"suffix {suffix[:k].hex()} appended"):
            return


def empty_inputs(ctx, L):
    names = L.non_union_types() + ["Command", "Response", "CommandResponseStream"]
    for t in ctx.mine(names):
        cc = 0x17B if t == "Response" else None
        ref, obs = strict_pair(L, t, b"", cc, False)
        ctx.case((t, "empty"), True, sample={"type": t, "input": "", "model": ref.kinds} if t in ("TPMS_EMPTY", "Command") else None)
        ctx.count(f"empty:{'+'.join(ref.kinds)}")
        if not report(ctx, ID, L, t, b"", cc, False, ref, obs, extra="empty input"):
            return


def run_shard(ctx):
    L = layout()
    body = lambda ex: check_case(ctx, L, ex)  # noqa: E731
    q = ctx.quick()
    ctx.run_plain(lambda: empty_inputs(ctx, L), "empty")
    suffix = st.binary(min_size=1, max_size=8)
    for name, strat, n in (
        ("commands", gen.commands(L, rare=False), 100 if q else 1500),
        ("responses", gen.responses(L, rare=False), 100 if q else 1500),
        ("structures", gen.structures(L, rare=False), 200 if q else 3000),
        ("streams", gen.streams(L, max_pairs=2 if q else 3, rare=False), 40 if q else 600),
    ):
        ctx.run_given(st.tuples(strat, suffix), body, ctx.share(n), name=name)


def replay(ctx, payload):
    replay_generic(ctx, ID, layout(), payload)
