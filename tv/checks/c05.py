"""C05 - input length mismatches are reported as depleted / superfluous, never absorbed (every cut point, every suffix)."""
from hypothesis import strategies as st

from .. import gen
from .common import layout, model_for_case
from .strictdiff import replay_generic, report, strict_pair

ID = "C05"
LEVEL = "fault_enumeration"
MIX = True  # a share of the decodes goes through the other front ends and byte sources (context.py)
HISTORY = True  # every second shard first runs a prelude of earlier library use (history.py)
OLANE = True  # two more shards run in an interpreter started with -O (runner.start_olane)
RULE = (
    "every truncation point 0..len-1 of every hypothesis-generated well-formed message (all structure types, commands, responses) "
    "and command/response stream, appended suffixes of 1..8 bytes, and the empty input for every type. Oracle: reference strict "
    "decoder - depleted after exactly the events of the complete fields (zero-width structural events before the incomplete field "
    "optional), carrying the command code of the last command decoded (None if none); superfluous carrying exactly the surplus and "
    "the command code; a stream may end cleanly only at a message boundary. Non-trivial = the cut lies inside a header, a nested "
    "buffer or a session area, or the type is not Command; distinct = (type, arguments, bytes)."
)
ASSUMPTIONS = ["an empty input for CommandResponseStream is a stream of zero messages (D-7)", "a cut that also changes which size error is due is judged by the model like any other input"]


ROOTS = ["", "", "", "cmd", ".log.entry"]


def check_case(ctx, L, ex):
    case, suffix = ex
    model_for_case(L, case)
    ctx.count("messages")
    ctx.add("types", case.type)
    n = len(case.data)
    # the caller may choose the root path of the events (root_path=); streams use the default root
    root = "" if case.type == "CommandResponseStream" else ROOTS[(len(suffix) + suffix[0]) % len(ROOTS)]
    if root:
        ctx.count("custom-root-path")
    for cut in range(0, n):
        data = case.data[:cut]
        ref, obs = strict_pair(L, case.type, data, case.cc, case.enc, root=root)
        nontrivial = case.type != "Command" or cut < 10 or any(r["start"] <= cut < r["start"] + r["max"] and r["path"].count(".") > 1 for r in ref.regions)
        ctx.case((case.type, case.cc, case.enc, data), nontrivial, sample={"type": case.type, "cut": cut, "of": n, "model": ref.kinds, "hex": data.hex()[:120]} if cut == n // 2 else None)
        for k in ref.kinds:
            ctx.count(f"cut:{k}")
        if not report(ctx, ID, L, case.type, data, case.cc, case.enc, ref, obs, extra=f"cut at {cut} of {n}", root=root):
            return
    from .. import faults

    extra = [faults.SUFFIXES[(len(case.data) + j) % len(faults.SUFFIXES)] for j in (0, 1)]  # zero words, a tag, ... (what real dumps carry behind a message)
    for sfx in [suffix[:k] for k in sorted({1, 2, len(suffix)}) if 1 <= k <= len(suffix)] + extra:
        k = len(sfx)
        data = case.data + sfx
        ref, obs = strict_pair(L, case.type, data, case.cc, case.enc, root=root)
        ctx.case((case.type, case.cc, case.enc, data), True, sample={"type": case.type, "suffix": sfx.hex(), "model": ref.kinds} if k == len(suffix) else None)
        for kk in ref.kinds:
            ctx.count(f"suffix:{kk}")
        if not report(ctx, ID, L, case.type, data, case.cc, case.enc, ref, obs, extra=f"suffix {sfx.hex()} appended", root=root):
            return


def empty_inputs(ctx, L):
    names = L.non_union_types() + ["Command", "Response", "CommandResponseStream"]
    for t in ctx.mine(names):
        cc = 0x17B if t == "Response" else None
        ref, obs = strict_pair(L, t, b"", cc, False)
        ctx.case((t, "empty"), True, sample={"type": t, "input": "", "model": ref.kinds} if t in ("TPMS_EMPTY", "Command") else None)
        ctx.count(f"empty:{'+'.join(ref.kinds)}")
        if not report(ctx, ID, L, t, b"", cc, False, ref, obs, extra="empty input"):
            return


def huge_suffixes(ctx, L):
    """Surplus far beyond any message size (around 64 KiB and 1 MiB): must be carried completely."""
    base = bytes.fromhex("80010000000c000001440000")
    sizes = [65535, 65536, 65537, 70000, 200000, (1 << 20) + 1]
    for n in ctx.mine(sizes):
        suffix = bytes((i * 31 + n) & 0xFF for i in range(n))
        for t, data in (("Command", base + suffix), ("UINT32", b"\x00\x00\x00\x07" + suffix)):
            ref, obs = strict_pair(L, t, data)
            ctx.case((t, "huge-suffix", n), True, sample={"type": t, "surplus_bytes": n})
            ctx.count("huge-suffixes")
            if not report(ctx, ID, L, t, data[:64], None, False, ref, obs, extra=f"{n} surplus bytes (input shown truncated)") :
                return


def huge_cuts(ctx, L):
    """Long encodings (buffers / lists of 2046..16382 elements, a response with 4096 random bytes and a session) cut inside
    the long part, at its first and last element and right behind it: every complete element is emitted before the error."""
    cases = [c for c in gen.huge_cases(L) if len(c.data) <= 17000] + gen.huge_messages(L)[:1]
    for k, case in enumerate(cases):
        if k % ctx.nshards != ctx.shard:
            continue
        n = len(case.data)
        head = next((off for i, (off, w) in sorted(case.spans.items()) if case.tokens[i][0].endswith("[0]")), 6)
        for cut in sorted({head, head + 1, head + 2, 1025, 1026 + head, 2049, 4097, n // 2, n - 2, n - 1}):
            if not 0 < cut < n:
                continue
            data = case.data[:cut]
            ref, obs = strict_pair(L, case.type, data, case.cc, case.enc)
            ctx.case((case.type, case.cc, case.enc, cut, n), True, sample={"type": case.type, "cut": cut, "of": n, "model": ref.kinds} if cut == n // 2 else None)
            ctx.count("huge-cuts")
            if not report(ctx, ID, L, case.type, data[:64], case.cc, case.enc, ref, obs, extra=f"a {n}-byte encoding cut at {cut} (replay shows its first 64 bytes only)"):
                return


def run_shard(ctx):
    L = layout()
    body = lambda ex: check_case(ctx, L, ex)  # noqa: E731
    q = ctx.quick()
    ctx.run_plain(lambda: empty_inputs(ctx, L), "empty")
    ctx.run_plain(lambda: huge_cuts(ctx, L), "huge-cuts")
    ctx.run_plain(lambda: huge_suffixes(ctx, L), "huge-suffix")
    suffix = st.binary(min_size=1, max_size=8)
    for name, strat, n in (
        ("commands", gen.commands(L, rare=False), 100 if q else 1500),
        ("responses", gen.responses(L, rare=False), 100 if q else 1500),
        ("structures", gen.structures(L, rare=False), 200 if q else 3000),
        ("streams", gen.streams(L, max_pairs=2 if q else 3, rare=False), 40 if q else 600),
    ):
        ctx.run_given(st.tuples(strat, suffix), body, ctx.share(n), name=name)


def replay(ctx, payload):
    replay_generic(ctx, ID, layout(), payload)
