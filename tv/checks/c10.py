"""C10 - decoding is incremental: one byte of look-ahead, prefix-stable, source-agnostic."""
from hypothesis import strategies as st

from .. import containers, gen, observe as O
from ..refdec import ELLIPSIS
from .common import case_payload, first_diff, layout, model_for_case

ID = "C10"
LEVEL = "fault_enumeration"
HISTORY = True  # every second shard first runs a prelude of earlier library use (history.py)
RULE = (
    "every cut point (crash point of the byte source) of hypothesis-generated well-formed messages and streams, decoded step-wise "
    "from a counting source owned by the harness, in both modes; seven kinds of byte source (bytes, bytearray, list, iterator, "
    "generator, counting iterator, a generator fed by another running decode) on the whole input and on sampled cuts; Hex and SWTPMLog front-ends over a counting character "
    "source. Oracle: at every delivered MarshalEvent pulled <= bytes of the primitive fields emitted so far + 1 (characters: <= the "
    "position where byte emitted+1 ends); events(prefix) is a prefix of events(whole) and contains every field complete in the prefix "
    "before the depleted error; all sources give identical events, outcome class, details and remaining bytes. Non-trivial = message "
    "with >= 10 primitive fields or a cut inside a nested sized region; distinct = (type, arguments, prefix bytes, mode)."
)
ASSUMPTIONS = ["the pcapng front-end is documented as eager (it needs the whole file) and is not claimed", "well-formed inputs and their prefixes only, as the statement says"]


def widths_of(L, events):
    out, total = [], 0
    for ev in events:
        if ev[0][0:1] != "!" and ev[2] != ELLIPSIS and L.is_prim(ev[1]):
            total += L.width(ev[1])
        out.append(total)
    return out


def lookahead_ok(ctx, L, obs, what, payload, limit_fn=None):
    emitted = widths_of(L, obs.events)
    for i, (ev, pulled) in enumerate(zip(obs.events, obs.pulled_at)):
        if ev[0] == "!warning":
            continue
        limit = emitted[i] + 1 if limit_fn is None else limit_fn(emitted[i])
        if pulled > limit:
            ctx.problem(
                f"C10:lookahead:{what}",
                f"when event {i} {ev} was delivered the source had been asked for {pulled} {'bytes' if limit_fn is None else 'characters'}; the fields emitted so far hold {emitted[i]} bytes, so at most {limit} may have been pulled; {payload['type']} {payload['data'].hex()[:200]}",
                payload,
            )
            return False
    return True


def nested_decode_source(data):
    """The bytes of `data`, produced lazily by another running tpmstream decode: `data` is wrapped into a TPM2B_MAX_BUFFER
    and the BYTE events of that (outer) decode feed the decode under test - a decoder nested in a decoder, the way the text
    front-ends feed the binary decoder from a generator."""
    from tpmstream.io.binary import Binary

    outer = len(data).to_bytes(2, "big") + bytes(data)
    for ev in Binary.marshal(tpm_type=O.lib_type("TPM2B_MAX_BUFFER"), buffer=outer, abort_on_error=False):
        if getattr(ev, "value", ...) is not ... and getattr(ev, "type", None) is O.lib_type("BYTE"):
            yield int(ev.value)


def make_sources(data):
    def g():
        for b in data:
            yield b

    extra = {"nested-decode": nested_decode_source(data)} if len(data) < 65536 else {}
    return {
        **extra,
        "bytes": bytes(data),
        "bytearray": bytearray(data),
        "list": list(data),
        "iterator": iter(bytes(data)),
        "generator": g(),
        "counting": O.CountingSource(data),
    }


def outcome_key(o):
    return {k: (bytes(v) if isinstance(v, (bytes, bytearray)) else v) for k, v in o.items() if not k.startswith("_")}


def check_case(ctx, L, ex):
    case, picks = ex
    O.reset_state()
    model_for_case(L, case)
    payload = case_payload(case)
    n = len(case.data)
    whole = {}
    for strict in (True, False):
        whole[strict] = O.run_decode(case.type, case.data, command_code=case.cc, enc=case.enc, strict=strict)
        if whole[strict].outcome["kind"] != "ok":
            ctx.count("whole-not-accepted")
            return
        if not lookahead_ok(ctx, L, whole[strict], "whole", payload):
            return
    prim_ends = []  # byte offset after each primitive field of the well-formed input (from the generator's token list)
    tot = 0
    for ev in case.events:
        if ev[2] != ELLIPSIS:
            tot += L.width(ev[1])
            prim_ends.append(tot)
    boundaries = {0, n}  # where a stream may end cleanly: between two messages
    if case.type == "CommandResponseStream" and case.meta.get("messages"):
        from .c09 import message_ranges

        boundaries |= {b for _, _, _, _, b, _ in message_ranges(L, case)}
    for strict in (True, False):
        got = sum(1 for e in whole[strict].events if e[0] != "!warning" and e[2] != ELLIPSIS)
        if got < len(prim_ends):
            ctx.problem("C10:complete-fields-missing", f"the whole input holds {len(prim_ends)} fields but only {got} were emitted before the decode ended with {whole[strict].outcome['kind']}; {case.type} {case.data.hex()[:200]}", payload)
            return
    big = len(prim_ends) >= 10
    ctx.count("messages")
    churned = any(t.endswith("#enc") for _, t, _ in case.events) and len(case.data) % 2 == 0
    if churned:
        # the prefixes are not decoded back to back with the whole input: every other encrypted parameter layout is used in between
        from .. import history

        history.churn()
        ctx.count("prefixes-after-other-decodes")
    for cut in range(0, n):
        prefix = case.data[:cut]
        for strict in (True, False):
            obs = O.run_decode(case.type, prefix, command_code=case.cc, enc=case.enc, strict=strict)
            pl = dict(payload, data=prefix)
            if strict:
                ctx.case((case.type, case.cc, case.enc, prefix), big or cut > 14, sample={"type": case.type, "cut": cut, "of": n, "events": len(obs.events), "outcome": obs.outcome["kind"]} if cut == (2 * n) // 3 else None)
            if not lookahead_ok(ctx, L, obs, "prefix", pl):
                return
            evs = [e for e in obs.events if e[0] != "!warning"]
            ref_evs = whole[strict].events
            d = first_diff(evs, ref_evs[: len(evs)])
            if d is not None:
                ctx.problem("C10:prefix-events", f"decoding the first {cut} of {n} bytes gives event {d} = {evs[d]}, the whole input gives {ref_evs[d] if d < len(ref_evs) else None}; {case.type} {case.data.hex()[:200]}", pl)
                return
            if churned:
                raw = [e for e in obs.raw if hasattr(e, "path")]
                bad = next((k for k, (a, b) in enumerate(zip(raw, [e for e in whole[strict].raw if hasattr(e, "path")])) if not (a == b)), None)
                if bad is not None:
                    ctx.problem("C10:prefix-events:not-equal", f"decoding the first {cut} of {n} bytes gives event {bad} = {evs[bad]} that does not compare equal to the same event of the whole input decoded earlier (declared type {raw[bad].type!r}); {case.type} {case.data.hex()[:200]}", dict(pl, churn=True))
                    return
            complete = sum(1 for e in prim_ends if e <= cut)
            got = sum(1 for e in evs if e[2] != ELLIPSIS)
            clean_end = case.type == "CommandResponseStream" and obs.outcome["kind"] == "ok" and cut in boundaries
            if got < complete:
                ctx.problem("C10:complete-fields-missing", f"{complete} fields are complete in the first {cut} bytes but only {got} were emitted before {obs.outcome['kind']}; {case.type} {case.data.hex()[:200]}", pl)
                return
            if strict and not clean_end and obs.outcome["kind"] != "depleted":
                ctx.problem(f"C10:prefix-outcome:{obs.outcome['kind']}", f"a proper prefix ({cut} of {n} bytes) of a well-formed input ended with {obs.outcome['kind']}; {case.type} {case.data.hex()[:200]}", pl)
                return
    # source kinds: whole input and sampled cuts
    for cut in sorted({n} | {p % (n + 1) for p in picks}):
        prefix = case.data[:cut]
        for strict in (True, False):
            results = {}
            for name, src in make_sources(prefix).items():
                o = O.run_decode(case.type, prefix, command_code=case.cc, enc=case.enc, strict=strict, source=src)
                results[name] = (o.events, outcome_key(o.outcome), [{k: v for k, v in w.items() if not k.startswith("_")} for _, w in o.warnings])
                ctx.count(f"source:{name}")
            base = results["bytes"]
            for name, r in results.items():
                if r != base:
                    ctx.problem(f"C10:source:{name}", f"decoding {cut} bytes from a {name} source differs from a bytes source: outcome {r[1]} vs {base[1]}, {len(r[0])} vs {len(base[0])} events; {case.type} {prefix.hex()[:200]}", dict(payload, data=prefix))
                    return


def check_large(ctx, L, ex):
    """Messages with long buffers / lists (lengths around powers of two): the look-ahead invariant on the whole input in
    both modes, and prefix relation + completeness on sampled cuts (every cut would be quadratic)."""
    case, picks = ex
    O.reset_state()
    model_for_case(L, case)
    payload = case_payload(case)
    n = len(case.data)
    whole = {}
    for strict in (True, False):
        whole[strict] = O.run_decode(case.type, case.data, command_code=case.cc, enc=case.enc, strict=strict)
        if whole[strict].outcome["kind"] != "ok":
            ctx.count("whole-not-accepted")
            return
        if not lookahead_ok(ctx, L, whole[strict], "whole", payload):
            return
    ctx.case(("large", case.type, case.cc, case.enc, case.data), n >= 256, sample={"type": case.type, "len": n, "flags": case.meta.get("flags")} if n >= 1024 else None)
    ctx.count("large-messages" if n >= 256 else "messages")
    prim_ends, tot = [], 0
    for ev in whole[True].events:
        if ev[2] != ELLIPSIS:
            tot += L.width(ev[1])
            prim_ends.append(tot)
    for cut in sorted({p % n for p in picks} | {n - 1, n // 2}) if n else []:
        prefix = case.data[:cut]
        for strict in (True, False):
            obs = O.run_decode(case.type, prefix, command_code=case.cc, enc=case.enc, strict=strict)
            pl = dict(payload, data=prefix)
            if not lookahead_ok(ctx, L, obs, "prefix", pl):
                return
            evs = [e for e in obs.events if e[0] != "!warning"]
            d = first_diff(evs, whole[strict].events[: len(evs)])
            if d is not None:
                ctx.problem("C10:prefix-events", f"decoding the first {cut} of {n} bytes gives event {d} = {evs[d]}, the whole input gives something else; {case.type} ({n} bytes)", pl)
                return
            complete = sum(1 for e in prim_ends if e <= cut)
            got = sum(1 for e in evs if e[2] != ELLIPSIS)
            if got < complete:
                ctx.problem("C10:complete-fields-missing", f"{complete} fields are complete in the first {cut} bytes but only {got} were emitted before {obs.outcome['kind']}; {case.type} ({n} bytes)", pl)
                return
            if n >= 1024:
                # sources that know their length (bytes, list, an iterator over them) against the counting iterator
                for name, src in (("bytes", bytes(prefix)), ("list", list(prefix)), ("iterator", iter(bytes(prefix)))):
                    o2 = O.run_decode(case.type, prefix, command_code=case.cc, enc=case.enc, strict=strict, source=src)
                    ctx.count(f"source:{name}:large")
                    if o2.events != obs.events or outcome_key(o2.outcome) != outcome_key(obs.outcome):
                        ctx.problem(f"C10:source:{name}", f"decoding the first {cut} of {n} bytes from a {name} source gives {len(o2.events)} events and {o2.outcome['kind']}, from a counting iterator {len(obs.events)} events and {obs.outcome['kind']}; {case.type} {prefix.hex()[:120]}", dict(pl, data=prefix[:4096]))
                        return


def check_frontends(ctx, L, ex):
    from tpmstream.io.hex import Hex
    from tpmstream.io.swtpm_log import SWTPMLog

    case, data = ex
    O.reset_state()
    msgs = []
    offs = [0]
    for p, t, v in case.tokens:
        offs.append(offs[-1] + (0 if v == ELLIPSIS else L.width(t)))
    for m in case.meta["messages"]:
        msgs.append(case.data[offs[m["first_token"]] : offs[m["first_token"] + m["n_tokens"]]])
    payload = case_payload(case)
    for name, marshal, rendered in (
        ("hex", Hex.marshal, data.draw(containers.hex_text(case.data))),
        ("swtpm", SWTPMLog.marshal, data.draw(containers.swtpm_log(msgs))),
    ):
        text, ends, noise = rendered
        raw = text.encode()
        total = len(case.data)

        def limit(emitted, ends=ends, raw=raw, total=total):
            return ends[emitted + 1] if emitted + 1 <= total else len(raw)

        src = O.CountingSource(raw)
        obs = O.run_decode(case.type, raw, strict=True, source=src, marshal=marshal)
        ctx.case((name, raw), True, sample={"front_end": name, "text": text[:200], "bytes": total} if len(text) < 400 else None)
        ctx.count(f"frontend:{name}")
        if obs.outcome["kind"] != "ok":
            ctx.count(f"frontend-not-accepted:{name}")  # agreement with the carried bytes is C15's business
            continue
        if not lookahead_ok(ctx, L, obs, name, dict(payload, container=name, text=text), limit_fn=limit):
            return


def run_shard(ctx):
    L = layout()
    q = ctx.quick()
    picks = st.lists(st.integers(0, 10**6), min_size=2, max_size=2)
    for name, strat, n in (
        ("commands", gen.commands(L, rare=False), 60 if q else 1200),
        ("responses", gen.responses(L, rare=False), 60 if q else 1200),
        ("structures", gen.structures(L, rare=False), 100 if q else 2000),
        ("streams", gen.streams(L, max_pairs=2, rare=False), 40 if q else 600),
    ):
        ctx.run_given(st.tuples(strat, picks), lambda ex: check_case(ctx, L, ex), ctx.share(n), name=name)
    ctx.run_given(st.tuples(gen.streams(L, max_pairs=2, rare=False), st.data()), lambda ex: check_frontends(ctx, L, ex), ctx.share(300 if q else 5000), name="frontends")
    ctx.run_plain(lambda: very_large(ctx, L), "very-large")
    if ctx.shard == 5:
        for c in special_streams(L):
            ctx.run_plain(lambda c=c: check_case(ctx, L, (c, [3, 17])), "special-stream")
    picks6 = st.lists(st.integers(0, 10**6), min_size=6, max_size=6)
    ctx.run_given(st.tuples(gen.messages(L, big=True), picks6), lambda ex: check_large(ctx, L, ex), ctx.share(500 if q else 8000), name="large")


def special_streams(L):
    """Hand-shaped well-formed streams with rare but valid message starts: a failed response carrying the TPM 1.2 style tag
    TPM_ST_RSP_COMMAND (first byte 0x00) between two ordinary exchanges, and a header-only exchange repeated."""
    b = gen.Builder(L, gen.FixedChooser(), big=False, rare=False)
    toks, msgs = [], []

    def add(kind, cc_name, mtoks, **extra):
        msgs.append(dict({"kind": kind, "cc_name": cc_name, "cc": L.commands[cc_name]["code"], "first_token": len(toks), "n_tokens": len(mtoks), "sessions": None}, **extra))
        toks.extend(mtoks)

    c1, m1 = b.command("GetRandom", None)
    add("Command", "GetRandom", c1, encrypt=False, decrypt=False)
    r1, _ = b.response("GetRandom", None, failed=True, fail_code=0x1E)
    r1[1][2] = 0x00C4
    add("Response", "GetRandom", r1, failed=True, enc=False)
    c2, _ = b.command("ReadClock", None)
    add("Command", "ReadClock", c2, encrypt=False, decrypt=False)
    r2, _ = b.response("ReadClock", None, failed=False)
    add("Response", "ReadClock", r2, failed=False, enc=False)
    meta = b.meta()
    meta["messages"] = msgs
    return [gen.Case("CommandResponseStream", toks, L, meta=meta)]


def very_large(ctx, L):
    """Messages whose declared size exceeds 4 KiB / 64 KiB (a response with 4096 resp. 65534 random bytes and a session),
    judged outside hypothesis: look-ahead on the whole input from a counting source, cuts early, inside and at the end."""
    cases = gen.huge_messages(L)[:2]
    for k, case in enumerate(cases):
        if (k * 5 + 2) % ctx.nshards != ctx.shard:
            continue
        n = len(case.data)
        check_large(ctx, L, (case, [12, 700, n - 40] if n < 10000 else [n - 3]))
        ctx.count("very-large-messages")


def replay(ctx, payload):
    from .common import ReplayCase

    L = layout()
    if "text" in payload:
        raise NotImplementedError("front-end replays carry the text; re-run the check with the same VERIF_SEED")
    # payload data may be a prefix; judge it against itself and all of its prefixes
    c = ReplayCase(L, payload)
    c.tokens = [list(e) for e in c.events]
    o = O.run_decode(c.type, c.data, command_code=c.cc, enc=c.enc, strict=True)
    lookahead_ok(ctx, L, o, "replay", payload)
    if o.outcome["kind"] == "ok":
        check_case(ctx, L, (c, [0, len(c.data) // 2]))
