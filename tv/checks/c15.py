"""C15 - hex, swtpm-log, pcapng and auto inputs decode like the bytes they carry (metamorphic + text references)."""
import itertools

from hypothesis import strategies as st

from .. import arb, containers, gen, observe as O
from ..refdec import ELLIPSIS
from .common import case_payload, first_diff, layout

ID = "C15"
LEVEL = "exploration"
HISTORY = True  # every second shard first runs a prelude of earlier library use (history.py)
RULE = (
    "hypothesis-generated command/response streams (well-formed, and fault-injected ones decoded in warn mode) rendered as (a) hex "
    "text with random letter case and whitespace between and inside pairs, (b) swtpm logs in the documented layout (free-text "
    "preamble, Ctrl Cmd/Rsp sections, SWTPM_IO sections, 1..32 upper-case pairs per line, optional leading/trailing blanks, LF/CRLF, "
    "blank lines), (c) pcapng written with dpkt (raw-IP and Ethernet, TCP payloads, optional 4-byte trailer, runt and empty packets), "
    "(d) Auto on binary, pcapng and hex text; plus exhaustive strings: hex - all strings of length <= 6 (thorough 7) over "
    "{0 a F g + - space newline}; swtpm - all token sequences of length <= 5 (thorough 6) over {SWTPM_IO, Ctrl, newline, space, "
    "0A, C7, zz, a0}. Oracle: events (and outcome, warnings) == Binary decode of the carried bytes; text references: whitespace "
    "stripped, all hex digits, even count => those bytes, else ValueError; swtpm: exactly the SWTPM_IO payloads, a payload token that "
    "is not an upper-case pair => ValueError. Non-trivial = the container has layout noise (whitespace inside a pair / a Ctrl section "
    "between payload sections / a runt or trailer packet) or the text is rejected; distinct = container bytes."
)
ASSUMPTIONS = [
    "Auto detects by a two-byte magic and has no swtpm branch: it is exercised on binary (first byte 0x80), pcapng and hex text starting with a hex pair (D-5)",
    "Ethernet captures declare link type EN10MB and use all-zero (loopback) or arbitrary MAC addresses; raw-IP captures declare LINKTYPE_IPV4 (228, as the repository's captures) or LINKTYPE_RAW",
    "swtpm token sequences outside the documented layout (header without newline) are skipped and counted",
]


def messages_of(L, case):
    offs = [0]
    for p, t, v in case.tokens:
        offs.append(offs[-1] + (0 if v == ELLIPSIS else L.width(t)))
    return [case.data[offs[m["first_token"]] : offs[m["first_token"] + m["n_tokens"]]] for m in case.meta["messages"]]


def summary(obs):
    o = {k: v for k, v in obs.outcome.items() if not k.startswith("_") and k not in ("message", "where")}
    ws = [{k: v for k, v in w.items() if not k.startswith("_") and k != "message"} for _, w in obs.warnings]
    return obs.events, o, ws


def same(ctx, name, got, want, payload, what):
    if got == want:
        return True
    if got[0] != want[0]:
        d = first_diff(got[0], want[0])
        msg = f"event {d}: {name} gives {got[0][d] if d < len(got[0]) else None}, the carried bytes give {want[0][d] if d < len(want[0]) else None}"
    elif got[1] != want[1]:
        msg = f"outcome: {name} gives {got[1]}, the carried bytes give {want[1]}"
    else:
        msg = f"warnings differ: {got[2]} vs {want[2]}"
    ctx.problem(f"C15:{name}", f"{msg}; {what}", payload)
    return False


def check_stream(ctx, L, ex):
    from tpmstream.io.auto import Auto
    from tpmstream.io.hex import Hex
    from tpmstream.io.pcapng import Pcapng
    from tpmstream.io.swtpm_log import SWTPMLog

    case, data, mutate = ex
    O.reset_state()
    msgs = messages_of(L, case)
    carried = case.data
    strict = True
    if mutate:
        # a malformed stream (still cut into the same packets): compare complete warn-mode decodes
        k = data.draw(st.integers(0, len(msgs) - 1))
        m = bytearray(msgs[k])
        kind = data.draw(st.sampled_from(["size", "size", "tag", "flip", "flip"]))
        if kind == "size" and len(m) >= 6:
            # a wrong size field, including ones smaller than the header and larger than the packet
            nv = data.draw(st.sampled_from([0, 1, 5, 9, 10, 11, len(m) - 1, len(m) + 1, len(m) + 4, 0xFFFFFFFF]))
            m[2:6] = max(0, nv).to_bytes(4, "big")
        elif kind == "tag" and len(m) >= 2:
            # a tag outside the command tags (a container must carry the packet all the same)
            m[0:2] = data.draw(st.sampled_from([0x00C4, 0x8000, 0x8003, 0xFFFF, 0x0000])).to_bytes(2, "big")
        elif m:
            pos = data.draw(st.integers(0, len(m) - 1))
            m[pos] ^= data.draw(st.sampled_from([0x01, 0x80, 0xFF]))
        msgs[k] = bytes(m)
        carried = b"".join(msgs)
        strict = False
    T = "CommandResponseStream"
    # render every container once, then compare in warn mode and (also for malformed streams) in strict mode:
    # a strict decode must raise the same error with the same details and the same remaining bytes through every container
    hex1 = data.draw(containers.hex_text(carried))
    log1 = data.draw(containers.swtpm_log(msgs))
    cap, cnoise = data.draw(containers.pcapng_capture(msgs))
    pcarried = cnoise.pop("carried")
    hex2 = data.draw(containers.hex_text(carried))[0].lstrip(containers.WS)
    ctx.case(("hex", hex1[0]), hex1[2]["ws_inside_pairs"] > 0, sample={"container": "hex", "text": hex1[0][:160]} if hex1[2]["ws_inside_pairs"] else None)
    ctx.case(("swtpm", log1[0]), log1[2]["ctrl_between_payload_sections"] > 0, sample={"container": "swtpm-log", "text": log1[0][:300]} if log1[2]["ctrl_between_payload_sections"] else None)
    ctx.case(("pcapng", cap), cnoise["runts"] + cnoise["trailers"] > 0 or mutate, sample={"container": "pcapng", "bytes": len(cap), **cnoise} if cnoise["runts"] and cnoise["trailers"] else None)
    ctx.case(("auto-binary", carried), True)
    if pcarried != carried and not mutate:
        from ..runner import HarnessError

        raise HarnessError("pcapng reference: a well-formed stream must be carried unchanged")
    for strict in ([True] if not mutate else [False, True]):
        payload = dict(case_payload(case), data=carried, strict=strict)
        what = f"stream {carried.hex()[:300]} ({'strict' if strict else 'warn'})"
        base = summary(O.run_decode(T, carried, strict=strict))
        ctx.count(f"stream-decodes:{'strict' if strict else 'warn'}:{base[1]['kind']}")
        # (a) hex
        got = summary(O.run_decode(T, hex1[0].encode(), strict=strict, marshal=Hex.marshal))
        if not same(ctx, "hex", got, base, dict(payload, container="hex", text=hex1[0]), what + f"; hex text {hex1[0][:300]!r}"):
            return
        # (b) swtpm log
        got = summary(O.run_decode(T, log1[0].encode(), strict=strict, marshal=SWTPMLog.marshal))
        if not same(ctx, "swtpm-log", got, base, dict(payload, container="swtpm", text=log1[0]), what + f"; log {log1[0][:400]!r}"):
            return
        # (c) pcapng: what a capture carries is each TPM packet trimmed to its own size field, runts (< 10 bytes) skipped
        pbase = base if pcarried == carried else summary(O.run_decode(T, pcarried, strict=strict))
        got = summary(O.run_decode(T, cap, strict=strict, marshal=Pcapng.marshal))
        if not same(ctx, "pcapng", got, pbase, dict(payload, container="pcapng", capture=cap), what + f"; capture of {len(cap)} bytes, noise {cnoise}"):
            return
        got = summary(O.run_decode(T, cap, strict=strict, marshal=Auto.marshal))
        if not same(ctx, "auto-pcapng", got, pbase, dict(payload, container="auto-pcapng", capture=cap), what):
            return
        # (d) auto on binary and on hex text starting with a hex pair
        got = summary(O.run_decode(T, carried, strict=strict, marshal=Auto.marshal))
        if not same(ctx, "auto-binary", got, base, dict(payload, container="auto-binary"), what):
            return
        if len(hex2) >= 2 and hex2[0] in containers.HEXDIGITS and hex2[1] in containers.HEXDIGITS:
            got = summary(O.run_decode(T, hex2.encode(), strict=strict, marshal=Auto.marshal))
            if not same(ctx, "auto-hex", got, base, dict(payload, container="auto-hex", text=hex2), what + f"; hex text {hex2[:300]!r}"):
                return


def check_structure_hex(ctx, L, ex):
    from tpmstream.io.hex import Hex

    case, data = ex
    O.reset_state()
    text, ends, noise = data.draw(containers.hex_text(case.data))
    base = summary(O.run_decode(case.type, case.data, command_code=case.cc, enc=case.enc, strict=True))
    got = summary(O.run_decode(case.type, text.encode(), command_code=case.cc, enc=case.enc, strict=True, marshal=Hex.marshal))
    ctx.case(("hex", case.type, text), noise["ws_inside_pairs"] > 0)
    if not same(ctx, "hex", got, base, dict(case_payload(case), container="hex", text=text), f"{case.type} {case.data.hex()[:200]}; hex text {text[:300]!r}"):
        return
    # Auto (the default front end of Canonical) on the bytes themselves, however short, when they cannot be mistaken for
    # hex text or a pcapng file (D-5: detection looks at the first two bytes)
    from tpmstream.io.auto import Auto

    d = case.data
    if len(d) >= 2 and d[:2] != b"\x0a\x0d" and not (chr(d[0]) in containers.HEXDIGITS and chr(d[1]) in containers.HEXDIGITS):
        got = summary(O.run_decode(case.type, d, command_code=case.cc, enc=case.enc, strict=True, marshal=Auto.marshal))
        ctx.case(("auto-binary", case.type, d), len(d) <= 3)
        ctx.count("auto-binary-structures" + (":short" if len(d) <= 3 else ""))
        same(ctx, "auto-binary", got, base, dict(case_payload(case), container="auto-binary"), f"{case.type} {d.hex()[:200]} through Auto")


def check_message_frontends(ctx, L, ex):
    """A single command / response (also with an encrypted parameter area) or structure through every front end with the
    same arguments - command code, encryption expectation, mode and a caller-chosen root path must all be passed through."""
    from tpmstream.io.auto import Auto
    from tpmstream.io.hex import Hex
    from tpmstream.io.pcapng import Pcapng
    from tpmstream.io.swtpm_log import SWTPMLog

    case, data = ex
    O.reset_state()
    root = data.draw(st.sampled_from(["", "", "msg", ".capture.entry"]))
    strict = data.draw(st.booleans())
    kw = dict(command_code=case.cc, enc=case.enc, strict=strict, root=root)
    base = summary(O.run_decode(case.type, case.data, **kw))
    payload = dict(case_payload(case), root=root, strict=strict)
    what = f"{case.type} {case.data.hex()[:200]} cc={case.cc} enc={case.enc} root_path={root!r} ({'strict' if strict else 'warn'})"
    ctx.case(("msg-frontends", case.type, case.cc, case.enc, root, strict, case.data), bool(root) or case.enc or case.cc is not None)
    ctx.count("message-through-all-frontends")
    text = data.draw(containers.hex_text(case.data))[0]
    if not same(ctx, "hex:arguments", summary(O.run_decode(case.type, text.encode(), marshal=Hex.marshal, **kw)), base, dict(payload, container="hex", text=text), what):
        return
    log = data.draw(containers.swtpm_log([case.data]))[0] if case.data else None
    if log is not None and not same(ctx, "swtpm-log:arguments", summary(O.run_decode(case.type, log.encode(), marshal=SWTPMLog.marshal, **kw)), base, dict(payload, container="swtpm", text=log), what):
        return
    if case.type in ("Command", "Response") and len(case.data) >= 10:
        cap, noise = data.draw(containers.pcapng_capture([case.data]))
        if noise.pop("carried") == case.data:
            if not same(ctx, "pcapng:arguments", summary(O.run_decode(case.type, cap, marshal=Pcapng.marshal, **kw)), base, dict(payload, container="pcapng", capture=cap), what):
                return
            if not same(ctx, "auto-pcapng:arguments", summary(O.run_decode(case.type, cap, marshal=Auto.marshal, **kw)), base, dict(payload, container="auto-pcapng", capture=cap), what):
                return
    d = case.data
    if len(d) >= 2 and d[:2] != b"\x0a\x0d" and not (chr(d[0]) in containers.HEXDIGITS and chr(d[1]) in containers.HEXDIGITS):
        same(ctx, "auto-binary:arguments", summary(O.run_decode(case.type, d, marshal=Auto.marshal, **kw)), base, dict(payload, container="auto-binary"), what)


def check_long_text(ctx, L, case):
    """A long stream (hundreds of messages) through the two text front ends, judged outside hypothesis."""
    from tpmstream.io.hex import Hex
    from tpmstream.io.swtpm_log import SWTPMLog

    O.reset_state()
    msgs = messages_of(L, case)
    base = summary(O.run_decode("CommandResponseStream", case.data, strict=True))
    payload = {"type": "CommandResponseStream", "data": case.data[:256], "note": "long stream, truncated"}
    text = "\n".join(m.hex() for m in msgs)
    ctx.case(("long-hex", len(msgs)), True, sample={"container": "hex", "messages": len(msgs), "bytes": len(case.data)})
    if not same(ctx, "hex:long", summary(O.run_decode("CommandResponseStream", text.encode(), strict=True, marshal=Hex.marshal)), base, payload, f"stream of {len(msgs)} messages as hex text"):
        return
    log = "".join(f"SWTPM_IO_{'Read' if i % 2 == 0 else 'Write'}: length {len(m)}\n " + " ".join(f"{b:02X}" for b in m) + " \n" for i, m in enumerate(msgs))
    ctx.case(("long-swtpm", len(msgs)), True, sample={"container": "swtpm-log", "messages": len(msgs)})
    same(ctx, "swtpm-log:long", summary(O.run_decode("CommandResponseStream", log.encode(), strict=True, marshal=SWTPMLog.marshal)), base, payload, f"stream of {len(msgs)} messages as swtpm log")


HEX_ALPHABET = ["0", "a", "F", "g", "+", "-", " ", "\n"]


def text_case(ctx, name, marshal, text, ref_bytes, expect_error, payload):
    """Decode `text` through a text front-end as UINT16 in warn mode: shows every carried byte (value + surplus)."""
    from tpmstream.io.binary import Binary

    got = O.run_decode("UINT16", text.encode(), strict=False, marshal=marshal)
    if expect_error:
        if got.outcome["kind"] != "crash" or got.outcome.get("class") != "ValueError":
            ctx.problem(f"C15:{name}:accepted-bad-text", f"text {text!r} is not a sequence of hex pairs but was decoded: {got.events} / {summary(got)[1]}", payload)
            return False
        return True
    want = summary(O.run_decode("UINT16", ref_bytes, strict=False, marshal=Binary.marshal))
    return same(ctx, f"{name}:text", summary(got), want, payload, f"text {text!r} carries {ref_bytes.hex()}")


def megabyte_texts(ctx):
    """Texts far longer than any buffer a front end may read ahead with (2.2 MiB of hex text, 0.7 MiB of swtpm log), with
    line layouts that put every read-ahead boundary between and inside pairs: the carried bytes are read back through the
    *surplus* of a strict UINT16 decode (the front end's reader runs over the whole text, the decoder only over two bytes)."""
    from tpmstream.io.hex import Hex
    from tpmstream.io.swtpm_log import SWTPMLog

    layouts = [
        ("pairs-7-per-line", lambda d: "\n".join(" ".join(f"{b:02x}" for b in d[i : i + 7]) for i in range(0, len(d), 7))),
        ("xxd-30-per-line", lambda d: "\n".join(d[i : i + 30].hex() for i in range(0, len(d), 30))),
        ("odd-blank-in-pair", lambda d: "".join(f"{b:02X}"[0] + (" " if i % 5 == 0 else "") + f"{b:02X}"[1] + ("\t" if i % 3 == 0 else "") for i, b in enumerate(d))),
    ]
    n = 0
    for k, (lname, render) in enumerate(layouts):
        if k % ctx.nshards != ctx.shard:
            continue
        data = bytes((i * 131 + (i >> 8) * 7 + k) & 0xFF for i in range(740_000))
        text = render(data)
        o = O.run_decode("UINT16", text.encode(), strict=True, marshal=Hex.marshal)
        n += 1
        ctx.case(("mega-hex", lname), True, sample={"container": "hex", "layout": lname, "text_bytes": len(text), "carried_bytes": len(data)})
        rem = o.outcome.get("remaining")
        if o.outcome["kind"] != "superfluous" or rem != data[2:]:
            d = None if rem is None else next((i for i, (a, b) in enumerate(zip(rem, data[2:])) if a != b), min(len(rem), len(data) - 2))
            ctx.problem("C15:hex:megabyte-text", f"a {len(text)}-character hex text ({lname}) carrying {len(data)} bytes: outcome {o.outcome['kind']} ({str(o.outcome.get('message'))[:80]}), carried bytes read back {None if rem is None else len(rem)}, first difference at byte {d}", {"container": "hex", "megabyte_layout": lname})
            return
    if (len(layouts)) % ctx.nshards == ctx.shard:
        data = bytes((i * 89 + 3) & 0xFF for i in range(240_000))
        log = "".join(f"SWTPM_IO_{'Read' if j % 2 == 0 else 'Write'}: length {len(data[i:i + 4000])}\n" + "".join(" " + " ".join(f"{b:02X}" for b in data[i : i + 4000][r : r + 16]) + " \n" for r in range(0, len(data[i : i + 4000]), 16)) for j, i in enumerate(range(0, len(data), 4000)))
        o = O.run_decode("UINT16", log.encode(), strict=True, marshal=SWTPMLog.marshal)
        ctx.case(("mega-swtpm",), True, sample={"container": "swtpm-log", "text_bytes": len(log), "carried_bytes": len(data)})
        rem = o.outcome.get("remaining")
        if o.outcome["kind"] != "superfluous" or rem != data[2:]:
            ctx.problem("C15:swtpm-log:megabyte-text", f"a {len(log)}-character swtpm log carrying {len(data)} bytes: outcome {o.outcome['kind']}, carried bytes read back {None if rem is None else len(rem)}", {"container": "swtpm", "megabyte_layout": "swtpm"})
    ctx.count("megabyte-texts", n)


def hex_exhaustive(ctx, max_len):
    from tpmstream.io.hex import Hex

    i = 0
    for n in range(0, max_len + 1):
        for tup in itertools.product(HEX_ALPHABET, repeat=n):
            i += 1
            if i % ctx.nshards != ctx.shard:
                continue
            text = "".join(tup)
            ref = containers.hex_reference(text)
            ctx.case(("hexs", text), ref is None or any(c in " \n" for c in text), sample={"text": text, "carries": None if ref is None else ref.hex()} if n == max_len and i % 9973 == 0 else None)
            ctx.count("hex_strings")
            ctx.count("hex_strings_rejected" if ref is None else "hex_strings_accepted")
            if not text_case(ctx, "hex", Hex.marshal, text, ref, ref is None, {"container": "hex", "text": text}):
                return


def hex_byte_sweep(ctx):
    """Every byte value 0..255 inserted at every position of a few valid hex texts: only the six ASCII whitespace bytes may
    be skipped, hex digits change the pairing, every other byte must be rejected with ValueError."""
    from tpmstream.io.hex import Hex

    bases = [b"8001", b"80 01\n", b"0a\tFf 10", b"C7"]
    i = 0
    for base in bases:
        for pos in range(len(base) + 1):
            for b in range(256):
                i += 1
                if i % ctx.nshards != ctx.shard:
                    continue
                raw = base[:pos] + bytes([b]) + base[pos:]
                text = raw.decode("latin-1")
                ref = containers.hex_reference(text)
                ctx.case(("hexb", raw), b >= 0x80 or b < 0x20, sample={"text_bytes": raw.hex(), "carries": None if ref is None else ref.hex()} if b in (0x85, 0x1C) and pos == 2 else None)
                ctx.count("hex_byte_insertions")
                got = O.run_decode("UINT16", raw, strict=False, marshal=Hex.marshal)
                if ref is None:
                    if got.outcome["kind"] != "crash" or got.outcome.get("class") != "ValueError":
                        ctx.problem("C15:hex:accepted-bad-text", f"hex text (bytes {raw.hex()}) holds the byte {b:#04x}, which is neither a hex digit nor ASCII whitespace, but was decoded: {got.events} / {summary(got)[1]}", {"container": "hex-bytes", "raw": raw})
                        return
                else:
                    from tpmstream.io.binary import Binary

                    want = summary(O.run_decode("UINT16", ref, strict=False, marshal=Binary.marshal))
                    if not same(ctx, "hex:text", summary(got), want, {"container": "hex-bytes", "raw": raw}, f"hex text bytes {raw.hex()} carry {ref.hex()}"):
                        return


def swtpm_exhaustive(ctx, max_len):
    from tpmstream.io.swtpm_log import SWTPMLog

    i = 0
    for n in range(0, max_len + 1):
        for tup in itertools.product(containers.SW_TOKENS, repeat=n):
            i += 1
            if i % ctx.nshards != ctx.shard:
                continue
            kind, b = containers.swtpm_reference(tup)
            ctx.count(f"swtpm_sequences:{kind}")
            if kind == "outside":
                continue
            text = "".join(tup)
            ctx.case(("sw", text), kind == "error" or (b and "Ctrl" in tup), sample={"tokens": list(tup), "reference": kind, "carries": b.hex()} if n == max_len and i % 4999 == 0 else None)
            if not text_case(ctx, "swtpm-log", SWTPMLog.marshal, text, b, kind == "error", {"container": "swtpm", "text": text}):
                return


def run_shard(ctx):
    L = layout()
    q = ctx.quick()
    ctx.run_plain(lambda: hex_exhaustive(ctx, 6 if q else 7), "hex-exhaustive")
    ctx.run_plain(lambda: megabyte_texts(ctx), "megabyte-texts")
    ctx.run_plain(lambda: swtpm_exhaustive(ctx, 5 if q else 6), "swtpm-exhaustive")
    ctx.run_plain(lambda: hex_byte_sweep(ctx), "hex-byte-sweep")
    ctx.run_given(st.tuples(gen.streams(L, max_pairs=3), st.data(), st.just(False)), lambda ex: check_stream(ctx, L, ex), ctx.share(900 if q else 12000), name="streams")
    ctx.run_given(st.tuples(gen.streams(L, max_pairs=2), st.data(), st.just(True)), lambda ex: check_stream(ctx, L, ex), ctx.share(300 if q else 4000), name="malformed-streams")
    ctx.run_given(st.tuples(gen.structures(L), st.data()), lambda ex: check_structure_hex(ctx, L, ex), ctx.share(400 if q else 5000), name="structures-hex")
    ctx.run_given(st.tuples(gen.messages(L), st.data()), lambda ex: check_message_frontends(ctx, L, ex), ctx.share(600 if q else 8000), name="message-frontends")
    if ctx.shard % 8 == 0:
        collected = []
        ctx.run_given(gen.long_streams(L), collected.append, 1, name="long-stream")
        for c in collected:
            ctx.run_plain(lambda c=c: check_long_text(ctx, L, c), "long-text")


def replay(ctx, payload):
    from tpmstream.io.hex import Hex
    from tpmstream.io.swtpm_log import SWTPMLog

    if payload.get("megabyte_layout"):
        ctx.nshards, ctx.shard = 1, 0
        return megabyte_texts(ctx)

    if payload.get("container") == "hex-bytes":
        raw = payload["raw"]
        ref = containers.hex_reference(raw.decode("latin-1"))
        got = O.run_decode("UINT16", raw, strict=False, marshal=Hex.marshal)
        if ref is None and not (got.outcome["kind"] == "crash" and got.outcome.get("class") == "ValueError"):
            ctx.problem("C15:hex:accepted-bad-text", f"hex text bytes {raw.hex()} decoded: {got.events}", payload)
        return
    if payload.get("container") in ("hex", "swtpm") and "type" not in payload:
        text = payload["text"]
        if payload["container"] == "hex":
            ref = containers.hex_reference(text)
            text_case(ctx, "hex", Hex.marshal, text, ref, ref is None, payload)
        else:
            raise NotImplementedError("re-run the exhaustive swtpm part")
        return
    T = payload["type"]
    strict = payload.get("strict", True)
    base = summary(O.run_decode(T, payload["data"], command_code=payload.get("cc"), enc=payload.get("enc"), strict=strict))
    if "text" in payload:
        m = Hex.marshal if "hex" in payload["container"] else SWTPMLog.marshal
        got = summary(O.run_decode(T, payload["text"].encode(), command_code=payload.get("cc"), enc=payload.get("enc"), strict=strict, marshal=m))
        same(ctx, payload["container"], got, base, payload, "replay")
