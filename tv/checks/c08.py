"""C08 - warn mode reports problems as warnings and keeps decoding (outcome, tiling predicate, lenient reference)."""
from hypothesis import strategies as st

from .. import arb, faults, gen, synthetic
from .common import layout, model_for_case
from .modes import judge_c08

ID = "C08"
LEVEL = "fault_enumeration"
MIX = True  # a share of the decodes goes through the other front ends and byte sources (context.py)
HISTORY = True  # every second shard first runs a prelude of earlier library use (history.py)
OLANE = True  # two more shards run in an interpreter started with -O (runner.start_olane)
RULE = (
    "malformed inputs in warn mode: every size field of hypothesis-generated messages x perturbations, value faults (1-3), cuts, "
    "suffixes, 1-3 mixed faults, arbitrary/mutated/wrong-type inputs over all types and command codes, and the exhaustive "
    "small-alphabet strings of the synthetic nested types. Oracle: (1) no exception escapes except ValueConstraintViolatedError for "
    "an unknown command code or a selector without member (verified against the snapshot); (2) tiling predicate - every field's bytes "
    "are the next input bytes, size warnings move the cursor exactly to the declared end of the named region, surplus/depleted are "
    "last, the cursor ends at len(input); (3) value-only faults: events == lenient reference interpretation with one warning directly "
    "after each offending event. Non-trivial = a size warning followed by a further primitive field (a recovery resumed) or >= 2 "
    "warnings; distinct = (type, arguments, bytes)."
)
ASSUMPTIONS = [
    "which of several simultaneously violated regions is named is not fixed (D-1); the predicate follows the one named",
    "a region whose declared end lies behind the bytes already shown cannot be un-read: legitimate only after an anticipated warning for it or for a tiny commandSize/responseSize",
]


def size_faults(ctx, L, case):
    ref0 = model_for_case(L, case)
    for i, nv, label, depth in faults.size_perturbations(L, case, ref0):
        data = faults.patch(L, case, {i: nv})
        if not judge_c08(ctx, L, case.type, case.cc, case.enc, data, f"size:{case.tokens[i][0]}:{label}"):
            return


def value_faults(ctx, L, ex):
    case, data = ex
    fm = data.draw(faults.value_faults(L, case))
    if fm:
        judge_c08(ctx, L, case.type, case.cc, case.enc, faults.patch(L, case, fm), f"value:{sorted(fm.items())}", value_only=True)


def repeated_faults(ctx, L, ex):
    """The same faulty exchange two to four times in one stream (a polling application repeats itself): every occurrence
    gets its own warning."""
    case, data = ex
    fm = data.draw(faults.value_faults(L, case, max_faults=1))
    if not fm:
        return
    bad = faults.patch(L, case, fm)
    n = data.draw(st.integers(2, 4))
    judge_c08(ctx, L, "CommandResponseStream", None, False, bad * n, f"repeated:{n}x:{sorted(fm.items())}", value_only=True)


def many_warnings(ctx, L):
    """More warnings in one decode than any plausible cap: lists of 1100 and 2600 elements that are all out of range."""
    from ..gen import Case

    k = 0
    for tname, cname, lname, etype in (("TPML_ALG", "count", "algorithms", "TPM_ALG_ID"), ("TPML_CC", "count", "commandCodes", "TPM_CC"), ("TPML_HANDLE", "count", "handle", "TPM_HANDLE")):
        if tname not in L.snap["structs"] or L.struct(tname)["fields"] != [[cname, "UINT32"], [lname, f"list[{etype}]"]]:
            continue
        outs = L.outside_values(etype)
        for n in (1100, 2600):
            k += 1
            if k % ctx.nshards != ctx.shard or not outs:
                continue
            toks = [["", tname, "..."], [f".{cname}", "UINT32", n], [f".{lname}", f"list[{etype}]", "..."]] + [[f".{lname}[{i}]", etype, outs[i % len(outs)]] for i in range(n)]
            data = b"".join(int(v).to_bytes(L.width(t), "big", signed=L.signed(t)) for p, t, v in toks if v != "...")
            ctx.count("many-warnings-cases")
            if not judge_c08(ctx, L, tname, None, False, data, f"many-warnings:{n}", value_only=True):
                return


# shrunk witnesses of repaired defects, replayed in every run (type, command code, encryption flag, input)
REGRESSIONS = [
    ("Response", 0x154, False, "80020000001500000000000000060005000000000000"),  # F-21: negative padding un-counted a byte of responseSize
    ("Response", 0x154, False, "800200000016000000000000000600050000000000000000"),
    ("Response", 0x17B, False, "80020000001300000000000000040003000000000000"),
]


def regressions(ctx, L):
    for t, cc, enc, hx in REGRESSIONS:
        ctx.count("regression-inputs")
        if not judge_c08(ctx, L, t, cc, enc, bytes.fromhex(hx), "regression"):
            return


def synthetic_part(ctx, max_len):
    LS = synthetic.extended_layout(layout())
    for t in synthetic.TOP_TYPES:
        for s in synthetic.strings([0, 1, 2, 3], max_len, ctx.shard, ctx.nshards):
            ctx.count("synthetic_strings")
            if not judge_c08(ctx, LS, t, None, False, s, "synthetic"):
                return


def run_shard(ctx):
    L = layout()
    q = ctx.quick()
    ctx.run_plain(lambda: synthetic_part(ctx, 7 if q else 9), "synthetic")
    if ctx.shard == 0:
        ctx.run_plain(lambda: regressions(ctx, L), "regressions")
    from .common import primitive_sweep

    ctx.run_plain(lambda: primitive_sweep(ctx, L, lambda t, data, ok: judge_c08(ctx, L, t, None, False, data, "primitive-sweep", value_only=not ok)), "primitive-sweep")
    ctx.run_given(gen.messages(L), lambda c: size_faults(ctx, L, c), ctx.share(300 if q else 6000), name="size-faults")
    ctx.run_given(st.tuples(gen.messages(L), st.data()), lambda ex: value_faults(ctx, L, ex), ctx.share(2500 if q else 40000), name="value-faults")
    ctx.run_given(st.tuples(gen.streams(L, max_pairs=1, lone_tail=False, rare=False), st.data()), lambda ex: repeated_faults(ctx, L, ex), ctx.share(300 if q else 5000), name="repeated-faults")
    ctx.run_plain(lambda: many_warnings(ctx, L), "many-warnings")
    ctx.run_given(arb.faulted_input(L), lambda x: judge_c08(ctx, L, x[0], x[1], x[2], x[3], x[4]), ctx.share(8000 if q else 150000), name="faulted")
    ctx.run_given(arb.arbitrary_input(L), lambda x: judge_c08(ctx, L, x[0], x[1], x[2], x[3], x[4]), ctx.share(5000 if q else 100000), name="arbitrary")

    if not ctx.quick():
        from .common import fuzz_campaign

        ctx.run_plain(lambda: fuzz_campaign(ctx, "c08", 150000), "libfuzzer")


def replay(ctx, payload):
    L = synthetic.extended_layout(layout()) if "SYN" in payload["type"] else layout()
    judge_c08(ctx, L, payload["type"], payload.get("cc"), payload.get("enc"), payload["data"])
