"""C01 - well-formed encodings decode to exactly the field-by-field event sequence (reference differential)."""
from .. import gen, observe as O
from .common import case_payload, check_declared_types, first_diff, layout, model_for_case, nontrivial_wellformed

ID = "C01"
LEVEL = "exploration"
RULE = (
    "hypothesis-generated well-formed encodings built from the pinned layout snapshot: a deterministic coverage pass "
    "over all 231 non-union structure types and 117 command codes x {command, response} x {no sessions, 1, 2, 3 sessions, "
    "encrypted first parameter, failed response}, then random structures/commands/responses; oracle = independent "
    "reference decoder over the snapshot (events equal element-wise and in length: path, declared type, integer value, "
    "value class, class identity). Non-trivial = >= 3 primitive fields, or a non-empty list, or a session area; "
    "distinct = distinct (type, command code, encryption flag, bytes)."
)
ASSUMPTIONS = [
    "layout/snapshot.json is the pinned TPM 2.0 layout (C20 checks the live tables against it)",
    "a session requesting parameter encryption for a parameter area without a leading TPM2B is outside the domain (D-9)",
]


def check_case(ctx, L, case):
    O.reset_state()
    r = model_for_case(L, case)
    obs = O.run_decode(case.type, case.data, command_code=case.cc, enc=case.enc, strict=True)
    payload = case_payload(case)
    ctx.case((case.type, case.cc, case.enc, case.data), nontrivial_wellformed(case), sample=case.brief())
    ctx.add("types", case.type if case.type not in ("Command", "Response") else f"{case.type}:{case.meta.get('cc_name')}")
    for u in case.meta.get("unions", []):
        ctx.add("union_arms", tuple(u))
    for t, n in case.meta.get("lists", []):
        ctx.add("list_lengths", n)
    for fl in case.meta.get("flags", []):
        ctx.count(f"flag:{fl}")
    if case.type in ("Command", "Response"):
        ctx.count(f"{case.type}:sessions={case.meta.get('sessions')}")
        if case.meta.get("decrypt") or case.enc:
            ctx.count(f"{case.type}:encrypted")
        if case.meta.get("failed"):
            ctx.count("Response:failed")
    if obs.outcome["kind"] != "ok":
        o = obs.outcome
        sig = f"C01:rejected:{o['kind']}" + (f":{o['class']}@{o['where']}" if o["kind"] == "crash" else "")
        ctx.problem(sig, f"well-formed {case.type} not accepted: {o}; input {case.data.hex()}", payload)
        return
    d = first_diff(obs.events, r.events)
    if d is not None:
        got = obs.events[d] if d < len(obs.events) else None
        exp = r.events[d] if d < len(r.events) else None
        comp = "length" if got is None or exp is None else ("path" if got[0] != exp[0] else "type" if got[1] != exp[1] else "value")
        ctx.problem(f"C01:events:{comp}", f"event {d}: decoder {got}, layout dictates {exp}; input {case.data.hex()} as {case.type} cc={case.cc} enc={case.enc}", payload)
        return
    bad = check_declared_types(L, obs, r.events)
    if bad:
        ctx.problem(f"C01:{bad[0]}", f"event {bad[1]}: {bad[2]}; input {case.data.hex()}", payload)


def run_shard(ctx):
    L = layout()
    body = lambda case: check_case(ctx, L, case)  # noqa: E731
    k = 2 if ctx.quick() else 6
    # deterministic coverage pass
    for t in ctx.mine(L.non_union_types()):
        ctx.run_given(gen.structures(L, t), body, k, name=f"type:{t}")
    for cc in ctx.mine(sorted(L.commands)):
        for ns in (None, 0, 1, 2, 3):
            ctx.run_given(gen.commands(L, cc, sessions=ns), body, k, name=f"cmd:{cc}:{ns}")
            ctx.run_given(gen.responses(L, cc, sessions=ns, failed=False), body, k, name=f"rsp:{cc}:{ns}")
        ctx.run_given(gen.commands(L, cc, sessions=2, decrypt=True), body, k, name=f"cmd:{cc}:enc")
        ctx.run_given(gen.responses(L, cc, sessions=2, enc=True, failed=False), body, k, name=f"rsp:{cc}:enc")
        ctx.run_given(gen.responses(L, cc, failed=True), body, k, name=f"rsp:{cc}:failed")
    # random phase
    ctx.run_given(gen.messages(L, big=not ctx.quick()), body, ctx.share(3000 if ctx.quick() else 60000), name="random")


def finalize(merged):
    L = layout()
    want = set(L.non_union_types())
    for cc in L.commands:
        want.add(f"Command:{cc}")
        want.add(f"Response:{cc}")
    missing = want - set(merged["sets"].get("types", ()))
    if missing:
        return {"harness_error": f"coverage pass never produced: {sorted(missing)[:10]}"}
    return {"coverage": {"all_types_and_command_codes_covered": True}}


def replay(ctx, payload):
    from ..gen import Case

    L = layout()

    class _C:
        pass

    c = _C()
    c.type, c.data, c.cc, c.enc, c.meta = payload["type"], payload["data"], payload["cc"], payload["enc"], {}
    from ..refdec import ref_decode

    r = ref_decode(L, c.type, c.data, command_code=c.cc, enc=c.enc)
    c.events = r.events
    c.n_prims = lambda: len(r.spans)
    c.brief = lambda: {"type": c.type, "hex": c.data.hex()}
    check_case(ctx, L, c)
