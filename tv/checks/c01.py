"""C01 - well-formed encodings decode to exactly the field-by-field event sequence (reference differential)."""
from .. import gen, observe as O
from .common import (
    ReplayCase,
    case_payload,
    check_declared_types,
    classify_wellformed,
    coverage_finalize,
    first_diff,
    layout,
    model_for_case,
    nontrivial_wellformed,
    wellformed_campaign,
)

ID = "C01"
LEVEL = "exploration"
MIX = True  # a share of the decodes goes through the other front ends and byte sources (context.py)
HISTORY = True  # every second shard first runs a prelude of earlier library use (history.py)
OLANE = True  # two more shards run in an interpreter started with -O (runner.start_olane)
RULE = (
    "hypothesis-generated well-formed encodings built from the pinned layout snapshot: a deterministic coverage pass "
    "over all 231 non-union structure types and 117 command codes x {command, response} x {no sessions, 1, 2, 3 sessions, "
    "encrypted first parameter, failed response}, then random structures/commands/responses; oracle = independent "
    "reference decoder over the snapshot (events equal element-wise and in length: path, declared type, integer value, "
    "value class, class identity). Non-trivial = >= 3 primitive fields, or a non-empty list, or a session area; "
    "distinct = distinct (type, command code, encryption flag, bytes)."
)
ASSUMPTIONS = [
    "layout/snapshot.json is the pinned TPM 2.0 layout (C20 checks the live tables against it)",
    "a session requesting parameter encryption for a parameter area without a leading TPM2B is outside the domain (D-9)",
]


def check_case(ctx, L, case, delivery=None):
    O.reset_state()
    r = model_for_case(L, case)
    obs = O.run_decode(case.type, case.data, command_code=case.cc, enc=case.enc, strict=True, delivery=delivery)
    payload = case_payload(case)
    if delivery:
        payload["delivery"] = delivery
    ctx.case((case.type, case.cc, case.enc, case.data, delivery), nontrivial_wellformed(case), sample=case.brief())
    classify_wellformed(ctx, case)
    if obs.outcome["kind"] != "ok":
        o = obs.outcome
        sig = f"C01:rejected:{o['kind']}" + (f":{o['class']}@{o['where']}" if o["kind"] == "crash" else "")
        ctx.problem(sig, f"well-formed {case.type} not accepted: {o}; input {case.data.hex()}", payload)
        return
    d = first_diff(obs.events, r.events)
    if d is not None:
        got = obs.events[d] if d < len(obs.events) else None
        exp = r.events[d] if d < len(r.events) else None
        comp = "length" if got is None or exp is None else ("path" if got[0] != exp[0] else "type" if got[1] != exp[1] else "value")
        ctx.problem(f"C01:events:{comp}", f"event {d}: decoder {got}, layout dictates {exp}; input {case.data.hex()} as {case.type} cc={case.cc} enc={case.enc}", payload)
        return
    bad = check_declared_types(L, obs, r.events)
    if bad:
        ctx.problem(f"C01:{bad[0]}", f"event {bad[1]}: {bad[2]}; input {case.data.hex()}", payload)


def run_shard(ctx):
    L = layout()
    from .. import gen

    huge = gen.huge_cases(L) + gen.huge_messages(L)
    for case in ctx.mine(huge):
        ctx.count("huge-encodings")
        ctx.run_plain(lambda case=case: check_case(ctx, L, case), f"huge:{case.type}:{len(case.data)}")
        # the long encodings also through the text front end, from files and from a plain generator (buffered readers)
        for d in ("hex", "files", "generator") if len(case.data) <= 20000 else ("files",):
            ctx.run_plain(lambda case=case, d=d: check_case(ctx, L, case, delivery=d), f"huge:{case.type}:{len(case.data)}:{d}")
    wellformed_campaign(ctx, L, lambda case: check_case(ctx, L, case), 2 if ctx.quick() else 6, 8000 if ctx.quick() else 80000)


def finalize(merged):
    return coverage_finalize(merged)


def replay(ctx, payload):
    L = layout()
    check_case(ctx, L, ReplayCase(L, payload), delivery=payload.get("delivery"))
