"""Shared engine of C03/C04/C05/C13: strict decode of an arbitrary input, library vs reference model."""
from .. import observe as O
from ..compare import judge_strict
from ..refdec import ELLIPSIS, ref_decode


def strict_pair(L, tname, data, cc=None, enc=False, root=""):
    O.reset_state()
    ref = ref_decode(L, tname, data, command_code=cc, enc=enc, root=root)
    obs = O.run_decode(tname, data, command_code=cc, enc=enc, strict=True, root=root)
    return ref, obs


def payload_of(tname, data, cc, enc, **extra):
    d = {"type": tname, "data": bytes(data), "cc": cc, "enc": bool(enc)}
    d.update(extra)
    return d


def report(ctx, prop, L, tname, data, cc, enc, ref, obs, check_remaining=False, extra=None, root=""):
    j = judge_strict(L, obs, ref, check_remaining=check_remaining)
    if j is None:
        return True
    sig, msg = j
    ctx.problem(f"{prop}:{sig}", f"{msg}; input {bytes(data).hex()[:4000]} as {tname} cc={cc} enc={enc}" + (f" root_path={root!r}" if root else "") + (f" [{extra}]" if extra else ""), payload_of(tname, data, cc, enc, root=root))
    return False


def accounting_problem(L, data, obs):
    """C13's identity on the library's own report: input == emitted field bytes + consumed offender + remaining."""
    o = obs.outcome
    if o["kind"] not in ("value", "exceeded", "subceeded", "anticipated", "encmismatch"):
        return None
    emitted = b""
    for p, t, v in obs.events:
        if p.startswith("!") or v == ELLIPSIS:
            continue
        if not L.is_prim(t):
            return ("unknown-type", f"event of unknown primitive type {t}")
        emitted += int(v).to_bytes(L.width(t), "big", signed=L.signed(t))
    n = len(emitted)
    if data[:n] != emitted:
        return ("emitted-not-prefix", f"bytes of the emitted fields {emitted.hex()} are not the input prefix {data[:n].hex()}")
    if o["kind"] == "value":
        consumed = L.width(o["type"]) if L.is_prim(o["type"]) else None
        if o["type"] == "TPM_CC" and not o["constraint_path"].startswith(".") and obs.events and obs.events[0][1] == "Response":
            consumed = 0  # the command code handed to a response decode is not on the wire
    elif o["kind"] == "exceeded":
        consumed = max(0, o["size_max"] - o["size_already"])
    else:
        consumed = 0
    rem = o.get("remaining")
    if rem is None:
        return ("remaining-missing", f"error carries no usable remaining bytes ({o.get('remaining_error')})")
    if consumed is None:
        return None
    want = data[n + consumed :]
    if bytes(rem) != want:
        return (
            f"remaining:{o['kind']}",
            f"{o['kind']} error: {n} bytes in emitted fields + {consumed} consumed offending bytes, so the unconsumed suffix is "
            f"{want.hex() or '<empty>'} but the error reports {bytes(rem).hex() or '<empty>'}",
        )
    return None


def replay_generic(ctx, prop, L, payload, check_remaining=False):
    tname, data, cc, enc = payload["type"], payload["data"], payload.get("cc"), payload.get("enc")
    ref, obs = strict_pair(L, tname, data, cc, enc, root=payload.get("root") or "")
    report(ctx, prop, L, tname, data, cc, enc, ref, obs, check_remaining=check_remaining)
    return ref, obs
