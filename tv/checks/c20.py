"""C20 - the layout tables are coherent and match the pinned layout (exhaustive over the finite configuration space)."""
import json

from .. import observe as O
from . import c01
from .common import coverage_finalize, layout, wellformed_campaign

ID = "C20"
LEVEL = "exploration"
HISTORY = True  # every second shard first runs a prelude of earlier library use (history.py)
EXHAUSTIVE = True
RULE = (
    "exhaustive enumeration of the finite configuration space: every one of the 248 structure types x fields, every union x every "
    "selector value valid for its selector type, every enumeration member / range / mask, 117 command codes x 4 tables (468 area "
    "types): (a) coherence predicates on the live tables, (b) item-by-item comparison of the re-extracted live tables with "
    "layout/snapshot.json, (c) one hypothesis-generated encoding per type / selector value / command code decoded against the "
    "snapshot-dictated events, (d) every selector value a union maps but its parent's selector type does not allow, decoded in warn "
    "mode (the member that follows is the union's), (e) every synthesized encrypted parameter layout used, then all others, then "
    "again: the same class object. An evaluation is one compared leaf item or one coherence obligation or one decode; every item is non-trivial."
)
ASSUMPTIONS = ["layout/snapshot.json is the pinned layout (extracted once from the pinned tree after the 'fix:' commits for FirmwareRead and TPMA_LOCALITY)"]


def norm(s):
    return s.replace("_", "").lower()


PREFIX = {
    "command_handles": "TPMS_COMMAND_HANDLES_",
    "command_params": "TPMS_COMMAND_PARAMS_",
    "response_handles": "TPMS_RESPONSE_HANDLES_",
    "response_params": "TPMS_RESPONSE_PARAMS_",
}


def diff(a, b, path, out, counter):
    """Leaf-wise comparison of two JSON values; differences appended to out as (path, live, pinned)."""
    if isinstance(a, dict) and isinstance(b, dict):
        for k in sorted(set(a) | set(b)):
            if k not in a:
                out.append((f"{path}/{k}", "<missing>", b[k]))
                counter[0] += 1
            elif k not in b:
                out.append((f"{path}/{k}", a[k], "<missing>"))
                counter[0] += 1
            else:
                diff(a[k], b[k], f"{path}/{k}", out, counter)
    elif isinstance(a, list) and isinstance(b, list):
        if len(a) != len(b):
            out.append((f"{path}#len", len(a), len(b)))
        for i, (x, y) in enumerate(zip(a, b)):
            diff(x, y, f"{path}[{i}]", out, counter)
        counter[0] += 1
    else:
        counter[0] += 1
        if a != b:
            out.append((path, a, b))


def coherence(live, problems, counter):
    from tpmstream.spec.commands import Command, Response

    from ..layout import Layout, list_elem

    LL = Layout(live)
    cmds = live["commands"]
    codes = sorted(e["code"] for e in cmds.values())
    ok = lambda: counter.__setitem__(0, counter[0] + 1)  # noqa: E731
    # 1 one entry per table, key sets == command set
    if len(set(codes)) != len(codes):
        problems.append(("command-code-duplicate", "two command names share a number"))
    for tname, rows in live["tables"].items():
        keys = sorted(k for k, _ in rows)
        ok()
        if keys != codes:
            problems.append(("table-keys", f"{tname}: keys differ from the command set: only-in-table {sorted(set(keys) - set(codes))}, missing {sorted(set(codes) - set(keys))}"))
    if LL.allowed("TPM_CC") != [[c, c] for c in codes] and sorted(v for lo, hi in LL.allowed("TPM_CC") for v in range(lo, hi + 1)) != codes:
        problems.append(("cc-set", "allowed values of TPM_CC differ from the command set"))
    # 2 no class shared, 3 named after its code
    maps = {
        "command_handles": Command._type_maps["handles"],
        "command_params": Command._type_maps["parameters"],
        "response_handles": Response._type_maps["handles"],
        "response_params": Response._type_maps["parameters"],
    }
    seen_ids, seen_names = {}, {}
    for tname, table in maps.items():
        for k, cls in table.items():
            ok()
            where = f"{tname}[{int(k):#x}]"
            if id(cls) in seen_ids:
                problems.append(("area-shared", f"{where} and {seen_ids[id(cls)]} use the same class {cls.__name__}"))
            seen_ids[id(cls)] = where
            if cls.__name__ in seen_names:
                problems.append(("area-name", f"{where} and {seen_names[cls.__name__]} use classes with the same name {cls.__name__}"))
            seen_names[cls.__name__] = where
    for name, e in cmds.items():
        for tname, pre in PREFIX.items():
            ok()
            a = e[tname]
            if a is None or not a.startswith(pre) or norm(a[len(pre) :]) != norm(name):
                problems.append(("area-name", f"{tname} of {name} is {a}, not named after its command code"))
    # 4 handle areas: at most three 4-byte handles
    for name, e in cmds.items():
        for tname in ("command_handles", "response_handles"):
            a = e[tname]
            if a is None or a not in live["areas"]:
                continue
            flds = live["areas"][a]["fields"]
            ok()
            if len(flds) > 3:
                problems.append(("handle-area", f"{a} has {len(flds)} fields"))
            for fn, ft in flds:
                p = live["primitives"].get(ft)
                if p is None or p["width"] != 4 or not (ft == "TPM_HANDLE" or "TPM_HANDLE" in p["bases"]):
                    problems.append(("handle-area", f"{a}.{fn}: {ft} is not a 4-byte handle type"))
    # 5 counted lists follow an unsigned count; 6 union fields have an earlier selector covering every valid value
    everything = {**live["structs"], **live["areas"]}
    used_unions = set()
    for sname, s in everything.items():
        flds = s["fields"]
        names = [f for f, _ in flds]
        sels = s.get("selectors", {})
        for i, (fn, ft) in enumerate(flds):
            if s["kind"] == "union":
                continue
            if list_elem(ft):
                ok()
                prev = flds[i - 1][1] if i else None
                p = live["primitives"].get(prev)
                if p is None or p["signed"] or p["kind"] not in ("valueset",) or LL.is_constrained(prev):
                    problems.append(("list-count", f"{sname}.{fn}: list does not directly follow an unsigned count (previous field: {prev})"))
            if ft in live["structs"] and live["structs"][ft]["kind"] == "union":
                ok()
                used_unions.add(ft)
                sf = sels.get(fn)
                if sf is None or sf not in names or names.index(sf) >= i:
                    problems.append(("selector", f"{sname}.{fn}: union field without an earlier selector field ({sf})"))
                    continue
                st = dict(flds)[sf]
                if st not in live["primitives"]:
                    problems.append(("selector", f"{sname}.{sf}: selector is not a primitive ({st})"))
                    continue
                for lo, hi in LL.allowed(st):
                    vals = range(lo, hi + 1) if hi - lo <= 4096 else (lo, hi)
                    for v in vals:
                        ok()
                        if LL.select(ft, v) is None:
                            problems.append(("selector-coverage", f"{sname}.{sf} = {v:#x} is valid for {st} but selects no member of {ft}"))
        for fn, sf in sels.items():
            ok()
            if fn not in names or sf not in names:
                problems.append(("selector", f"{sname}._selectors names unknown fields: {fn} <- {sf}"))
    # 7 list-valued union members reachable from a structure have their fixed length
    for u in sorted(used_unions):
        s = live["structs"][u]
        reachable = {m for _, m in s["selection"]} | ({s["fallback"]} if s["fallback"] else set())
        for fn, ft in s["fields"]:
            if fn in reachable and list_elem(ft):
                ok()
                if fn not in s.get("list_size", {}):
                    problems.append(("union-list-size", f"{u}.{fn}: list-valued member without fixed length"))
        for k, m in s["selection"]:
            ok()
            if m not in dict(s["fields"]):
                problems.append(("union-member", f"{u}: selector {k} maps to unknown member {m}"))


def tables_check(ctx, again=False):
    from tools.extract_layout import extract

    L = layout()
    live = json.loads(json.dumps(extract()))
    diffs, counter = [], [0]
    diff(live, L.snap, "", diffs, counter)
    problems = []
    cnt2 = [0]
    coherence(live, problems, cnt2)
    ctx.evaluations += counter[0] + cnt2[0]
    for i in range(counter[0] + cnt2[0]):
        pass
    ctx.count("snapshot_items_compared", counter[0])
    ctx.count("coherence_obligations", cnt2[0])
    ctx.nontrivial.update(f"item{'b' if again else ''}{i}".encode() for i in range(counter[0] + cnt2[0]))
    if again:
        ctx.count("tables_rechecked_after_decoding")
    else:
        ctx.samples.append({"compared": "primitives/TPM_ALG/members[3]", "live": live["primitives"]["TPM_ALG"]["members"][3]})
        ctx.samples.append({"coherence": "TPMT_PUBLIC.type selects parameters/unique for every valid value", "selection": live["structs"]["TPMU_PUBLIC_PARMS"]["selection"]})
    if problems:
        kind, msg = problems[0]
        ctx.problem(f"C20:coherence:{kind}", "; ".join(m for _, m in problems[:12]) + (f" (+{len(problems) - 12} more)" if len(problems) > 12 else ""), {"problems": problems[:50]})
    if diffs:
        p, a, b = diffs[0]
        section = "/".join(p.split("/")[1:3])
        ctx.problem(
            f"C20:snapshot:{section}",
            "; ".join(f"{p}: live {json.dumps(a)[:120]} != pinned {json.dumps(b)[:120]}" for p, a, b in diffs[:10]) + (f" (+{len(diffs) - 10} more)" if len(diffs) > 10 else ""),
            {"diffs": [[p, a, b] for p, a, b in diffs[:50]]},
        )


def foreign_selector_points(L):
    """(structure, selector field, value): selector values a union maps explicitly but the parent's selector type does not
    allow - the union's mapping is the union's (pinned), whatever the parent thinks of the value."""
    out = []
    for sname in sorted(L.snap["structs"]):
        s = L.snap["structs"][sname]
        for uf, sf in sorted(s.get("selectors", {}).items()):
            stype = L.field_type(sname, sf)
            if not L.is_prim(stype):
                continue
            lo, hi = L.limits(stype)
            for k, m in L.struct(L.field_type(sname, uf))["selection"]:
                if lo <= k <= hi and not L.contains(stype, k):
                    out.append((sname, sf, k))
    return sorted(set(out))


def check_foreign_selector(ctx, L, case):
    """Warn mode goes on behind an out-of-range selector: the member that follows is the one the union's own mapping names."""
    from ..refdec import ref_decode

    O.reset_state()
    ref = ref_decode(L, case.type, case.data, check_values=False)
    if ref.events != case.events:
        from ..runner import HarnessError

        raise HarnessError(f"generator and lenient reference disagree on {case.type} {case.data.hex()}")
    w = O.run_decode(case.type, case.data, strict=False)
    got = [e for e in w.events if e[0] != "!warning"]
    ctx.case(("foreign-selector", case.type, case.data), True, sample={"type": case.type, "hex": case.data.hex()[:80], "selector_outside_parent_set": True})
    ctx.count("foreign-selector-decodes")
    payload = {"type": case.type, "data": case.data, "cc": None, "enc": False, "foreign_selector": True}
    if w.outcome["kind"] != "ok" or got != case.events:
        d = next((i for i, (a, b) in enumerate(zip(got, case.events)) if a != b), min(len(got), len(case.events)))
        ctx.problem(
            "C20:selector-mapping:warn-mode",
            f"warn-mode decode of {case.type} {case.data.hex()} ends with {w.outcome['kind']}; event {d} is {got[d] if d < len(got) else None}, the pinned selector mapping dictates {case.events[d] if d < len(case.events) else None}",
            payload,
        )


def layout_stability(ctx, L):
    """One parameter layout per command code, also for the synthesized encrypted variants: the declared type of the
    `.parameters` event of a message is the same class object before and after every other variant was used."""
    from .. import history

    msgs = history.churn_messages()

    def params_type(m):
        tname, data, cc, enc = m
        o = O.run_decode(tname, data, command_code=cc, enc=enc, strict=False)
        for ev in o.raw:
            if getattr(ev, "path", None) is not None and str(ev.path).endswith(".parameters") and ev.value is ...:
                return ev.type
        return None

    first = [params_type(m) for m in msgs]
    for rnd in range(2):
        order = range(len(msgs)) if rnd == 0 else range(len(msgs) - 1, -1, -1)
        for i in order:
            t = params_type(msgs[i])
            ctx.case(("layout-stability", rnd, i), True)
            if t is not first[i]:
                ctx.problem(
                    "C20:layout-not-unique",
                    f"{msgs[i][0]} with command code {msgs[i][2] if msgs[i][2] is not None else int.from_bytes(msgs[i][1][6:10], 'big'):#x}: the encrypted parameter layout is {t!r} (id {id(t):#x}) now, it was {first[i]!r} (id {id(first[i]):#x}) before {len(msgs)} other layouts were used - not one layout per command code",
                    {"layout_stability": True},
                )
                return
    ctx.count("layout-stability-messages", len(msgs))


def long_buffers(ctx, L):
    """Every size-prefixed byte buffer type with 1025 and 4097 bytes: in the pinned layout a TPM2B size is a plain UINT16,
    no type has a smaller limit of its own."""
    from ..gen import Case

    names = sorted(n for n, s_ in L.snap["structs"].items() if s_["kind"] != "union" and len(s_["fields"]) == 2 and s_["fields"][1][1] == "list[BYTE]" and L.is_prim(s_["fields"][0][1]) and n != "TPM2B_ENCRYPTED_PARAM")
    for tname in ctx.mine(names):
        (sname, stype), (bname, btype) = L.struct(tname)["fields"]
        for n in (1025, 4097):
            if not L.contains(stype, n):
                continue
            toks = [["", tname, "..."], [f".{sname}", stype, n], [f".{bname}", btype, "..."]] + [[f".{bname}[{i}]", "BYTE", (i * 11 + n) & 0xFF] for i in range(n)]
            c01.check_case(ctx, L, Case(tname, toks, L, meta={"lists": [(btype, n)], "flags": ["long-buffer"]}))
            ctx.count("long-buffers")


def alias_command_codes(ctx, L):
    """The command-code numbers are the pinned ones and nothing else: a response decoded for a number that is a known code
    plus reserved / vendor bits has no layout (ValueConstraintViolatedError), it does not borrow the known command's."""
    from .. import gen
    from .strictdiff import report, strict_pair

    for cc_name in ctx.mine(sorted(L.commands)):
        toks, meta = gen.Builder(L, gen.FixedChooser(), big=False, rare=False).response(cc_name, None, enc=False, failed=False)
        cc = L.commands[cc_name]["code"]
        case = gen.Case("Response", toks, L, cc=cc, enc=False, meta=meta)
        for ucc in (0x20000000 | cc, 0x00010000 | cc, 0x40000000 | cc, 0x80000000 | cc):
            if ucc in L.cc_by_code:
                continue
            ref, obs = strict_pair(L, "Response", case.data, ucc, False)
            ctx.case(("alias-cc", ucc, case.data), True, sample={"response_of": cc_name, "decoded_for_command_code": hex(ucc)} if ucc >> 16 == 1 and cc % 7 == 0 else None)
            ctx.count("alias-command-codes")
            if not report(ctx, ID, L, "Response", case.data, ucc, False, ref, obs, extra=f"decoded for command code {ucc:#x}, an alias of {cc_name} ({cc:#x})"):
                return


def run_shard(ctx):
    L = layout()
    if ctx.shard == 0:
        ctx.run_plain(lambda: tables_check(ctx), "tables")
    ctx.run_plain(lambda: long_buffers(ctx, L), "long-buffers")
    ctx.run_plain(lambda: alias_command_codes(ctx, L), "alias-command-codes")
    if ctx.shard == 1:
        ctx.run_plain(lambda: layout_stability(ctx, L), "layout-stability")
    from .. import gen

    for sname, sf, v in ctx.mine(foreign_selector_points(L)):
        ctx.run_given(gen.structures(L, sname, overrides={sf: v}), lambda case: check_foreign_selector(ctx, L, case), 1, name=f"foreign:{sname}:{sf}:{v}")
    # (c) behavioural pass: snapshot-dictated events for one encoding per type / arm / command code shape
    wellformed_campaign(ctx, L, lambda case: c01.check_case(ctx, L, case), 1, 160, big=False)
    if ctx.shard == 0:
        # the tables must still be the pinned ones after messages (also with encrypted parameter areas) were decoded
        ctx.run_plain(lambda: tables_check(ctx, again=True), "tables-after-decoding")


def finalize(merged):
    return coverage_finalize(merged)


def replay(ctx, payload):
    if payload.get("layout_stability"):
        return layout_stability(ctx, layout())
    if payload.get("foreign_selector"):
        from .common import ReplayCase
        from ..refdec import ref_decode

        L = layout()
        c = ReplayCase(L, payload)
        c.events = ref_decode(L, c.type, c.data, check_values=False).events
        return check_foreign_selector(ctx, L, c)
    if "type" in payload:
        c01.replay(ctx, payload)
    else:
        tables_check(ctx)
