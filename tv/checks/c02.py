"""C02 - re-encoding the events of a decodable input reproduces the input bytes (round trip + per-field slices)."""
from hypothesis import strategies as st

from .. import faults, gen, observe as O
from ..refdec import ELLIPSIS
from .common import ReplayCase, case_payload, classify_wellformed, coverage_finalize, layout, wellformed_campaign

ID = "C02"
LEVEL = "exploration"
MIX = True  # a share of the decodes goes through the other front ends and byte sources (context.py)
HISTORY = True  # every second shard first runs a prelude of earlier library use (history.py)
OLANE = True  # two more shards run in an interpreter started with -O (runner.start_olane)
RULE = (
    "every hypothesis-generated well-formed encoding (coverage pass over all types / command codes / session shapes + random) "
    "decoded strictly, and value-corrupted variants (1-3 constrained leaves replaced by out-of-range values) decoded in warn "
    "mode; oracle = round trip: join(Binary.unmarshal(events)) == input, structural and warning events re-encode to b'', the "
    "k-th primitive event re-encodes to input[offset_k : offset_k + declared width] with offsets summed from the snapshot's "
    "widths. Non-trivial = input holds a signed, 64-bit, named-range, aliased-enum value, an encrypted area or a value warning."
)
ASSUMPTIONS = ["declared widths come from layout/snapshot.json, not from len(to_bytes())"]

SPECIAL_TYPES = {"INT8", "INT16", "INT32", "INT64", "UINT64", "TPM_CLOCK_ADJUST", "TPM_CLOCK", "TPM_HANDLE", "TPM_ALG_ID", "TPMI_ALG_HASH"}


def roundtrip(ctx, L, what, data, obs, payload, mode):
    """The events of `obs` must tile `data` exactly when re-encoded."""
    from tpmstream.io.binary import Binary

    chunks = ctx.guard(lambda: list(Binary.unmarshal(obs.raw)), f"C02:{mode}:unmarshal", payload)
    if chunks is None:
        return
    if len(chunks) != len(obs.raw):
        ctx.problem(f"C02:{mode}:chunk-count", f"{len(chunks)} chunks for {len(obs.raw)} events", payload)
        return
    cursor = 0
    for i, (ev, chunk) in enumerate(zip(obs.events, chunks)):
        if not isinstance(chunk, (bytes, bytearray)):
            ctx.problem(f"C02:{mode}:chunk-type", f"event {i} re-encodes to {type(chunk).__name__}", payload)
            return
        if ev[0] in ("!warning", "!other") or ev[2] == ELLIPSIS:
            if chunk != b"":
                ctx.problem(f"C02:{mode}:structural-nonempty", f"event {i} {ev} re-encodes to {bytes(chunk).hex()}", payload)
                return
            continue
        w = L.width(ev[1]) if L.is_prim(ev[1]) else None
        want = data[cursor : cursor + w] if w is not None else None
        if bytes(chunk) != want:
            ctx.problem(
                f"C02:{mode}:slice",
                f"event {i} {ev} re-encodes to {bytes(chunk).hex()} but the input holds {want.hex() if want is not None else None} at offset {cursor} (declared width {w}); input {data.hex()} as {what}",
                payload,
            )
            return
        cursor += w
    if cursor != len(data) or b"".join(chunks) != data:
        ctx.problem(f"C02:{mode}:total", f"re-encoding covers {cursor} of {len(data)} bytes; input {data.hex()} as {what}", payload)
        return
    # the same events streamed from a one-shot iterator (what `convert --out binary` does) re-encode to the same bytes
    streamed = ctx.guard(lambda: b"".join(Binary.unmarshal(e for e in obs.raw)), f"C02:{mode}:unmarshal-iterator", payload)
    if streamed is not None and streamed != data:
        ctx.problem(f"C02:{mode}:iterator", f"re-encoding the events from a one-shot iterator gives {streamed.hex()[:200]}, from a list {data.hex()[:200]}; {what}", payload)


def check_case(ctx, L, case, faults_map=None):
    O.reset_state()
    payload = case_payload(case)
    special = case.enc or bool(case.meta.get("decrypt")) or any(t in SPECIAL_TYPES for p, t, v in case.events if v != ELLIPSIS)
    classify_wellformed(ctx, case)
    obs = O.run_decode(case.type, case.data, command_code=case.cc, enc=case.enc, strict=True)
    ctx.case(("s", case.type, case.cc, case.enc, case.data), special and case.n_prims() >= 1, sample=case.brief())
    if obs.outcome["kind"] == "ok":
        ctx.count("strict:accepted")
        roundtrip(ctx, L, case.type, case.data, obs, payload, "strict")
    else:
        # acceptance of well-formed inputs is C01's business; here only accepted inputs are in the domain
        ctx.count("strict:not-accepted")
    # near misses: extra bytes behind the input or inside a sized region (all size fields adjusted).  Strict mode
    # normally rejects them; whatever it accepts is in the domain and has to re-encode to exactly those bytes.
    if len(case.data) <= 600 and obs.outcome["kind"] == "ok":
        from ..refdec import ref_decode

        variants = [(case.data + sfx, "suffix") for sfx in faults.SUFFIXES[: 3 if ctx.quick() else 6]]
        variants += list(faults.consistent_insertions(L, case, ref_decode(L, case.type, case.data, command_code=case.cc, enc=case.enc)))[:8]
        for data3, label in variants:
            O.reset_state()
            obs3 = O.run_decode(case.type, data3, command_code=case.cc, enc=case.enc, strict=True)
            ctx.count(f"near-miss:{'accepted' if obs3.outcome['kind'] == 'ok' else 'rejected'}")
            if obs3.outcome["kind"] == "ok":
                ctx.case(("n", case.type, case.cc, case.enc, data3), True)
                roundtrip(ctx, L, f"{case.type} ({label})", data3, obs3, dict(payload, data=data3), "strict")
    if faults_map:
        data2 = faults.patch(L, case, faults_map)
        payload2 = dict(payload, data=data2)
        O.reset_state()
        obs2 = O.run_decode(case.type, data2, command_code=case.cc, enc=case.enc, strict=False)
        kinds = [w["kind"] for _, w in obs2.warnings]
        ctx.case(("w", case.type, case.cc, case.enc, data2), bool(kinds), sample={"type": case.type, "hex": data2.hex()[:192], "faults": {case.tokens[i][0]: v for i, v in faults_map.items()}, "warnings": kinds})
        if obs2.outcome["kind"] == "ok" and kinds and all(k == "value" for k in kinds):
            ctx.count("warn:only-value-warnings")
            roundtrip(ctx, L, case.type, data2, obs2, payload2, "warn")
        else:
            ctx.count(f"warn:out-of-domain:{obs2.outcome['kind']}")


OPT_HELPER = r"""
import sys, json
sys.path.insert(0, sys.argv[1])
from tpmstream.common.event import MarshalEvent
from tpmstream.io.binary import Binary
from tpmstream.spec import all_types
from tpmstream.spec.structures.constants import TPM_CC
reg = {t.__name__: t for t in all_types}
out = []
for c in json.load(sys.stdin):
    res = {}
    for mode, strict in (("strict", True), ("warn", False)):
        kw = dict(tpm_type=reg[c["type"]], buffer=bytes.fromhex(c["hex"]), abort_on_error=strict)
        if c["cc"] is not None:
            kw["command_code"] = TPM_CC(c["cc"])
        if c["enc"]:
            kw["parameter_encryption"] = True
        events = []
        try:
            for e in Binary.marshal(**kw):
                events.append(e)
            end = "ok"
        except Exception as exc:
            end = type(exc).__name__
        chunks = list(Binary.unmarshal(events))
        shape = [str(e.path) if isinstance(e, MarshalEvent) else "!" + type(e.error).__name__ for e in events]
        res[mode] = {"end": end, "shape": shape, "hex": b"".join(chunks).hex()}
    out.append(res)
print(json.dumps(out))
"""


def optimized_interpreter(ctx, L, cases):
    """The same decodes (strict and warn) and round trips in a fresh interpreter started with -O (assert statements compiled
    away) must behave exactly as in this interpreter: a library must not depend on its asserts for its behaviour."""
    import json
    import subprocess
    import sys

    from ..runner import HarnessError

    inp = []
    for c, fm in cases:
        if not (c.type in ("Command", "Response", "CommandResponseStream") or L.is_prim(c.type) or c.type in L.snap["structs"]):
            continue
        inp.append({"type": c.type, "hex": c.data.hex(), "cc": c.cc, "enc": bool(c.enc)})
        if fm:
            inp.append({"type": c.type, "hex": faults.patch(L, c, fm).hex(), "cc": c.cc, "enc": bool(c.enc), "faulted": True})
    if not inp:
        return
    import os

    # other interpreter settings the library must not depend on: assertions compiled away (-O), other string-hash seeds
    for flags, hashseed, label in ((["-O"], "0", "python -O"), ([], "1", "PYTHONHASHSEED=1"), (["-O"], "4242", "python -O PYTHONHASHSEED=4242")):
        p = subprocess.run([sys.executable] + flags + ["-c", OPT_HELPER, O.SRC], input=json.dumps(inp), capture_output=True, text=True, timeout=900, env=dict(os.environ, PYTHONHASHSEED=hashseed))
        if p.returncode != 0:
            raise HarnessError(f"{label} helper failed: {p.stderr[-800:]}")
        res = json.loads(p.stdout.strip().splitlines()[-1])
        if not _compare_interpreter(ctx, L, inp, res, label):
            return


def _compare_interpreter(ctx, L, inp, res, label):
    for c, r in zip(inp, res):
        data = bytes.fromhex(c["hex"])
        ctx.case(("-O", c["type"], c["hex"]), True, sample={"interpreter": label, **c} if len(c["hex"]) < 80 else None)
        ctx.count(f"decodes under {label}")
        payload = {"type": c["type"], "data": data, "cc": c["cc"], "enc": c["enc"], "interpreter": label}
        for mode, strict in (("strict", True), ("warn", False)):
            O.reset_state()
            here = O.run_decode(c["type"], data, command_code=c["cc"], enc=c["enc"], strict=strict)
            shape = [e[0] if e[0] != "!warning" else "!" + e[1] for e in here.events]
            end = "ok" if here.outcome["kind"] == "ok" else None
            got = r[mode]
            if got["shape"] != shape or (end == "ok") != (got["end"] == "ok"):
                d = next((i for i, (x, y) in enumerate(zip(got["shape"], shape)) if x != y), min(len(got["shape"]), len(shape)))
                ctx.problem(
                    f"C02:optimized-interpreter:{mode}",
                    f"under `{label}` the {mode} decode of {c['hex'][:200]} as {c['type']} differs: event {d} is {got['shape'][d] if d < len(got['shape']) else None} "
                    f"(normally {shape[d] if d < len(shape) else None}), {len(got['shape'])} vs {len(shape)} events, end {got['end']} vs {here.outcome['kind']}",
                    payload,
                )
                return False
            if end == "ok" and all(x[1]["kind"] == "value" for x in here.warnings) and got["hex"] != c["hex"]:
                ctx.problem(f"C02:optimized-interpreter:{mode}", f"under `{label}` re-encoding the {mode} decode of {c['hex'][:200]} as {c['type']} gives {got['hex'][:200]}", payload)
                return False
    return True


def run_shard(ctx):
    L = layout()

    def body(ex):
        case, data = ex
        check_case(ctx, L, case, data.draw(faults.value_faults(L, case)))

    def wrap(strategy):
        return st.tuples(strategy, st.data())

    class _Ctx:
        """wellformed_campaign with every strategy paired with a data() source for the fault draws."""

        def __getattr__(self, name):
            return getattr(ctx, name)

        def run_given(self, strategy, b, n, name=None):
            return ctx.run_given(wrap(strategy), b, n, name=name)

    from .common import wellformed_campaign as camp

    camp(_Ctx(), L, body, 2 if ctx.quick() else 5, 4000 if ctx.quick() else 50000, streams_n=300 if ctx.quick() else 5000)
    if ctx.shard < 2 or not ctx.quick():
        from .. import gen

        collected = []
        ctx.run_given(st.tuples(gen.messages(L), st.data()), lambda ex: collected.append((ex[0], ex[1].draw(faults.value_faults(L, ex[0])))), 25 if ctx.quick() else 100, name="for-python-O")
        ctx.run_plain(lambda: optimized_interpreter(ctx, L, collected), "python-O")


def finalize(merged):
    return coverage_finalize(merged, need_arms=False)


def replay(ctx, payload):
    L = layout()
    O.reset_state()
    for strict in (True, False):
        obs = O.run_decode(payload["type"], payload["data"], command_code=payload.get("cc"), enc=payload.get("enc"), strict=strict)
        kinds = [w["kind"] for _, w in obs.warnings]
        if obs.outcome["kind"] == "ok" and all(k == "value" for k in kinds):
            roundtrip(ctx, L, payload["type"], payload["data"], obs, payload, "strict" if strict else "warn")
