"""C12 - decoding is a pure function of its arguments (stateful: interleaved decodes, history invariant)."""
import json
import os
import subprocess
import sys

import hypothesis
from hypothesis import HealthCheck, Phase, settings, strategies as st
from hypothesis.stateful import RuleBasedStateMachine, initialize, precondition, rule, run_state_machine_as_test

from .. import gen, observe as O
from ..runner import CheckFailure, HarnessError, derive_seed
from .common import layout

ID = "C12"
LEVEL = "exploration"
RULE = (
    "hypothesis rule-based state machine over a pool of 3-6 generated well-formed messages (biased to commands/responses with "
    "encrypted parameter areas of different command codes, plus structures and streams); rules: decode message i to the end "
    "(strict / warn / as stream / via Canonical), open a step-wise decode of i, advance open decode j by k events, finish j, "
    "convert a finished event list to objects, decode message i in a worker thread; plus a sweep that decodes one message for every encryptable parameter layout (102) three times in one process. Invariant over the history: every finished result for (bytes, arguments) == the first "
    "result recorded for that key (event lists and objects compared with ==, and as plain tuples), encrypted parameter layouts of "
    "equal origin are the identical class; a sample of first results is compared with a decode in a fresh interpreter. Non-trivial = "
    "history contains A, B, A with encrypted areas of different parameter types or >= 2 simultaneously open decodes; distinct = history."
)
ASSUMPTIONS = ["OS-thread interleavings are not generated: the library is single-threaded generator code; interleaving is realised by step-wise advanced generators"]


class Engine:
    """Executes history steps against the library and checks the history invariant."""

    def __init__(self, ctx, L, pool):
        self.ctx, self.L = ctx, L
        self.pool = pool  # list of dict(type, data, cc, enc, encrypted_area)
        self.first = {}
        self.open = []  # [pool index, mode, generator, events]
        self.history = []
        self.enc_seq = []  # pool indices (with encrypted areas) in order of finished decodes
        self.max_open = 0

    def payload(self):
        return {"pool": [{"type": p["type"], "data": p["data"], "cc": p["cc"], "enc": p["enc"], "parts": p.get("parts"), "container": p.get("container"), "malformed": p.get("malformed", False)} for p in self.pool], "history": self.history}

    def _marshal(self, i, mode):
        from tpmstream.io.binary import Binary
        from tpmstream.spec.structures.constants import TPM_CC

        p = self.pool[i]
        kw = dict(tpm_type=O.lib_type(p["type"]), buffer=p["data"], abort_on_error=(mode == "strict"))
        if p["cc"] is not None:
            kw["command_code"] = TPM_CC(p["cc"])
        if p["enc"]:
            kw["parameter_encryption"] = True
        front = Binary
        c = p.get("container")
        if c:
            # the same message handed over in a container (the front ends are part of "decoding")
            from .. import context

            if c == "hex":
                from tpmstream.io.hex import Hex as front

                kw["buffer"] = context.hex_text(p["data"]).encode()
            elif c == "swtpm":
                from tpmstream.io.swtpm_log import SWTPMLog as front

                kw["buffer"] = context.swtpm_text(p["data"]).encode()
            elif c in ("pcapng-eth", "pcapng-raw"):
                from tpmstream.io.pcapng import Pcapng as front

                kw["buffer"] = context.pcapng_bytes(p["data"], ethernet=(c == "pcapng-eth"))
        return front.marshal(**kw)

    def _record(self, key, value, what, outcome=None):
        """value: (events list, object or None); outcome: None (ran to its end) or the described error that ended it"""
        events, obj = value
        tuples = [O.event_tuple(e) + (O.value_class(e),) for e in events]
        if key not in self.first:
            self.first[key] = (events, obj, tuples, outcome)
            return
        ev0, obj0, tup0, out0 = self.first[key]
        pl = self.payload()
        if outcome != out0:
            self.ctx.problem("C12:outcome-differs", f"{what}: ended with {outcome}, the first decode of the same input with the same arguments ended with {out0}; history {self.history}", pl)
        if tuples != tup0:
            d = next((k for k, (a, b) in enumerate(zip(tuples, tup0)) if a != b), min(len(tuples), len(tup0)))
            self.ctx.problem("C12:events-differ", f"{what}: event {d} is {tuples[d] if d < len(tuples) else None}, the first decode of the same input gave {tup0[d] if d < len(tup0) else None}; history {self.history}", pl)
        for k, (a, b) in enumerate(zip(events, ev0)):
            if not hasattr(a, "type") or not hasattr(b, "type"):
                continue  # warnings wrap exception objects (compared by identity): their text is part of the tuples above
            if not (a == b):
                same_name = getattr(a.type, "__name__", None) == getattr(b.type, "__name__", None)
                self.ctx.problem(
                    "C12:event-not-equal" + (":same-name-different-class" if same_name and a.type is not b.type else ""),
                    f"{what}: event {k} {tuples[k]} does not compare equal to the one from the first decode of the same input (declared types {a.type!r} is {b.type!r}: {a.type is b.type}); history {self.history}",
                    pl,
                )
        if obj is not None and obj0 is not None and not (obj == obj0):
            self.ctx.problem("C12:object-not-equal", f"{what}: object differs from the first decode's object; history {self.history}", pl)

    def _finished(self, i, mode, events, obj, how, outcome=None):
        if self.pool[i]["encrypted_area"]:
            self.enc_seq.append(i)
        # a malformed message ends differently in the two modes: one record per mode
        key = (i, "decode", mode) if self.pool[i].get("malformed") else (i, "decode")
        self._record(key, (events, obj), f"{how} decode of message {i} ({mode})", outcome)

    @staticmethod
    def _ended(err):
        d = O.describe_error(err) or {"kind": type(err).__name__}
        return {k: (v.hex() if isinstance(v, (bytes, bytearray)) else v) for k, v in d.items() if not k.startswith("_") and k != "message"}

    def step(self, s):
        """Execute one history step; an exception out of the library is itself a result that differs from the first decode
        (the pool holds well-formed messages only)."""
        try:
            self._step(s)
        except (CheckFailure, HarnessError):
            raise
        except Exception as exc:  # noqa: BLE001
            sig = O.crash_signature(exc) if not isinstance(exc, O.DOCUMENTED) else {"class": type(exc).__name__, "where": "documented-error", "message": str(exc)[:200]}
            self.ctx.problem(
                f"C12:step-raised:{sig['class']}",
                f"step {list(s)} raised {sig['class']} ({sig['message']}) although every message of the pool is well-formed and decodes on its own; history {self.history}",
                self.payload(),
            )

    def _step(self, s):
        self.history.append(list(s))
        kind = s[0]
        if kind == "full":
            _, i, mode = s
            g = self._marshal(i, mode)
            events = []
            obj = None
            outcome = None
            try:
                while True:
                    events.append(next(g))
            except StopIteration as stop:
                obj = stop.value
            except O.DOCUMENTED as err:
                if not self.pool[i].get("malformed"):
                    raise
                outcome = self._ended(err)
            self._finished(i, mode, events, obj, "full", outcome)
        elif kind == "thread":
            # the same full decode, run to its end in a worker thread of this process
            import concurrent.futures

            _, i, mode = s

            def work():
                g = self._marshal(i, mode)
                events = []
                try:
                    while True:
                        events.append(next(g))
                except StopIteration as stop:
                    return events, stop.value, None
                except O.DOCUMENTED as err:
                    if not self.pool[i].get("malformed"):
                        raise
                    return events, None, self._ended(err)

            with concurrent.futures.ThreadPoolExecutor(max_workers=1) as ex:
                events, obj, outcome = ex.submit(work).result()
            self._finished(i, mode, events, obj, "worker-thread", outcome)
        elif kind == "declare":
            # an application may declare further parameter areas (e.g. of a vendor command) while it is decoding
            from tpmstream.spec.commands.params_common import TPMS_PARAMS
            from tpmstream.spec.common.values import tpm_dataclass
            from tpmstream.spec.structures.base_types import UINT32

            _, n = s
            cls = type(f"TPMS_COMMAND_PARAMS_VENDOR_{n}", (TPMS_PARAMS,), {"__annotations__": {"value": UINT32}})
            tpm_dataclass(cls)
        elif kind == "open":
            _, i, mode = s
            self.open.append([i, mode, self._marshal(i, mode), []])
            self.max_open = max(self.max_open, len(self.open))
        elif kind == "adv":
            _, j, k = s
            slot = self.open[j % len(self.open)]
            try:
                for _ in range(k):
                    slot[3].append(next(slot[2]))
            except StopIteration as stop:
                self.open.remove(slot)
                self._finished(slot[0], slot[1], slot[3], stop.value, "step-wise")
            except O.DOCUMENTED as err:
                self.open.remove(slot)
                if not self.pool[slot[0]].get("malformed"):
                    raise
                self._finished(slot[0], slot[1], slot[3], None, "step-wise", self._ended(err))
        elif kind == "finish":
            _, j = s
            slot = self.open[j % len(self.open)]
            obj = None
            outcome = None
            try:
                while True:
                    slot[3].append(next(slot[2]))
            except StopIteration as stop:
                obj = stop.value
            except O.DOCUMENTED as err:
                if not self.pool[slot[0]].get("malformed"):
                    self.open.remove(slot)
                    raise
                outcome = self._ended(err)
            self.open.remove(slot)
            self._finished(slot[0], slot[1], slot[3], obj, "step-wise", outcome)
        elif kind == "split":
            # the messages of a stream decoded one by one (each response with the code and the encryption request of the
            # command before it): "results of separate decodes [and] of stream decodes ... are mutually comparable"
            from tpmstream.io.binary import Binary
            from tpmstream.spec.structures.constants import TPM_CC

            _, i = s
            parts = self.pool[i].get("parts")
            if not parts or self.pool[i].get("malformed"):
                return
            events = []
            for tname, cc, enc, a, b in parts:
                kw = dict(tpm_type=O.lib_type(tname), buffer=self.pool[i]["data"][a:b], abort_on_error=True)
                if tname == "Response":
                    kw["command_code"] = TPM_CC(cc)
                    if enc:
                        kw["parameter_encryption"] = True
                events.extend(Binary.marshal(**kw))
            self._record((i, "decode"), (events, None), f"message-by-message decode of stream {i}")
        elif kind == "objs":
            from tpmstream.common.object import events_to_obj, events_to_objs
            from tpmstream.spec.structures.constants import TPM_CC

            _, i = s
            if (i, "decode") not in self.first or self.pool[i].get("malformed"):
                return
            p = self.pool[i]
            events = list(self.first[(i, "decode")][0])
            if p["type"] == "CommandResponseStream":
                obj = list(events_to_objs(events))
            else:
                obj = events_to_obj(events, command_code=TPM_CC(p["cc"]) if p["cc"] is not None else None)
            self._record((i, "objs"), ([], obj), f"events-to-object conversion of message {i}")
            dec_obj = self.first[(i, "decode")][1]
            if p["type"] != "CommandResponseStream" and dec_obj is not None and not (obj == dec_obj):
                self.ctx.problem("C12:conversion-vs-decode", f"object rebuilt from events differs from the decoder's object for message {i}; history {self.history}", self.payload())
        elif kind == "canon":
            from tpmstream.common.canonical import Canonical
            from tpmstream.io.binary import Binary
            from tpmstream.spec.structures.constants import TPM_CC

            _, i = s
            p = self.pool[i]
            if p["enc"] or self.L.is_prim(p["type"]) or p.get("malformed") or p.get("container"):
                return
            c = Canonical(p["data"], format_in=Binary, tpm_type=O.lib_type(p["type"]), command_code=TPM_CC(p["cc"]) if p["cc"] is not None else None)
            self._record((i, "decode"), (list(c.events), None), f"Canonical decode of message {i}")

    def nontrivial(self):
        aba = False
        seq = self.enc_seq
        for a in range(len(seq)):
            for b in range(a + 1, len(seq)):
                if seq[b] != seq[a] and seq[a] in seq[b + 1 :]:
                    aba = True
        return aba or self.max_open >= 2


@st.composite
def pools(draw, L):
    n = draw(st.integers(3, 6))
    pool = []
    for k in range(n):
        which = draw(st.integers(0, 9))
        if which <= 3:
            c = draw(gen.commands(L, sessions=draw(st.sampled_from([1, 2])), decrypt=True))
        elif which <= 6:
            c = draw(gen.responses(L, sessions=draw(st.sampled_from([1, 2])), enc=True, failed=False))
        elif which <= 7:
            c = draw(gen.structures(L))
        else:
            c = draw(gen.streams(L, max_pairs=2 if which == 8 else 3))
        encrypted_area = any(t.endswith("#enc") for p, t, v in c.tokens)
        parts = None
        if c.type == "CommandResponseStream":
            from .c09 import message_ranges

            parts = [[kind, cc, enc, a, b] for kind, cc, enc, a, b, m in message_ranges(L, c)]
        entry = {"type": c.type, "data": c.data, "cc": c.cc, "enc": bool(c.enc), "encrypted_area": encrypted_area, "parts": parts, "container": None, "malformed": False}
        kind = draw(st.integers(0, 9))
        if kind in (0, 4):
            # a malformed variant (one wrong size or one out-of-range value): both modes end the way they ended before
            from .. import faults
            from .common import model_for_case

            sites = faults.size_sites(L, c) + faults.constrained_sites(L, c)
            if sites:
                i = draw(st.sampled_from(sites))
                t = c.tokens[i][1]
                lo, hi = L.limits(t)
                nv = draw(st.sampled_from([v for v in (c.tokens[i][2] + 1, c.tokens[i][2] - 1, lo, hi) + tuple(L.outside_values(t)[:2]) if lo <= v <= hi and v != c.tokens[i][2]]))
                entry.update(data=faults.patch(L, c, {i: nv}), malformed=True, parts=None)
        elif kind <= 3 and c.type in ("Command", "Response", "CommandResponseStream") and not entry["enc"]:
            from .. import context

            if context.split_messages(c.data) is not None and (c.type == "CommandResponseStream" or len(context.split_messages(c.data)) == 1):
                entry["container"] = draw(st.sampled_from(["pcapng-eth", "pcapng-raw", "hex", "swtpm"]))
                if entry["container"].startswith("pcapng"):
                    entry["parts"] = None
        pool.append(entry)
    return pool


def fresh_interpreter_tuples(p):
    code = (
        "import sys, json; sys.path.insert(0, %r); sys.path.insert(0, %r)\n"
        "from tv import observe as O\n"
        "p = json.loads(sys.argv[1])\n"
        "o = O.run_decode(p['type'], bytes.fromhex(p['data']), command_code=p['cc'], enc=p['enc'], strict=True)\n"
        "print(json.dumps([[list(O.event_tuple(e)) + [O.value_class(e)] for e in o.raw], o.outcome['kind']]))\n"
    ) % (O.SRC, os.path.dirname(os.path.dirname(os.path.dirname(os.path.abspath(__file__)))))
    arg = json.dumps({"type": p["type"], "data": p["data"].hex(), "cc": p["cc"], "enc": p["enc"]})
    out = subprocess.run([sys.executable, "-c", code, arg], capture_output=True, text=True, timeout=120, env=dict(os.environ, PYTHONHASHSEED="0"))
    if out.returncode != 0:
        raise HarnessError(f"fresh interpreter failed: {out.stderr[-800:]}")
    return json.loads(out.stdout.strip().splitlines()[-1])


def layout_sweep(ctx, L, pool):
    """Every synthesized encrypted parameter layout in one process: decode one message per layout, then all of them again
    (and once more in reverse order); each later result must equal the first one for the same message."""
    e = Engine(ctx, L, pool)
    order = list(range(len(pool)))
    for rnd, seq in enumerate((order, order, order[::-1])):
        for i in seq:
            e.step(("full", i, "strict"))
        if rnd == 0:
            for i in order[:: max(1, len(order) // 10)]:
                e.step(("objs", i))
    ctx.case(b"sweep" + b"|".join(p["data"] for p in pool[:8]), True, sample={"layout_sweep": len(pool), "first": [(p["type"], p["cc"]) for p in pool[:4]]})
    ctx.count("layout-sweep-messages", len(pool))


def run_shard(ctx):
    L = layout()
    q = ctx.quick()
    fresh_budget = [2 if q else 10]
    # (a) sweep over all encryptable layouts (61 command + 41 response parameter areas in the pinned layout)
    if ctx.shard < 2 or not q:
        collected = []
        names = sorted(L.commands)
        if ctx.shard % 2:
            names = names[::-1]
        for cc in names:
            e_ = L.commands[cc]
            if L.first_param_is_tpm2b(e_["command_params"]):
                ctx.run_given(gen.commands(L, cc, sessions=1, decrypt=True, rare=False), collected.append, 1, name=f"sweep:cmd:{cc}")
            if L.first_param_is_tpm2b(e_["response_params"]):
                ctx.run_given(gen.responses(L, cc, sessions=1, enc=True, failed=False, rare=False), collected.append, 1, name=f"sweep:rsp:{cc}")
        pool = [{"type": c.type, "data": c.data, "cc": c.cc, "enc": bool(c.enc), "encrypted_area": True} for c in collected]
        ctx.run_plain(lambda: layout_sweep(ctx, L, pool), "layout-sweep")

    class Machine(RuleBasedStateMachine):
        def __init__(self):
            super().__init__()
            self.e = None

        @initialize(pool=pools(L))
        def setup(self, pool):
            O.reset_state() if False else None  # state must NOT be reset between histories' steps; histories start as the process is
            self.e = Engine(ctx, L, pool)

        @rule(i=st.integers(0, 5), mode=st.sampled_from(["strict", "warn"]))
        def full(self, i, mode):
            self.e.step(("full", i % len(self.e.pool), mode))

        @rule(i=st.integers(0, 5), mode=st.sampled_from(["strict", "warn"]))
        def in_thread(self, i, mode):
            self.e.step(("thread", i % len(self.e.pool), mode))

        @rule(i=st.integers(0, 5), mode=st.sampled_from(["strict", "warn"]))
        def open_(self, i, mode):
            if len(self.e.open) < 4:
                self.e.step(("open", i % len(self.e.pool), mode))

        @precondition(lambda self: self.e is not None and self.e.open)
        @rule(j=st.integers(0, 3), k=st.integers(1, 40))
        def advance(self, j, k):
            self.e.step(("adv", j, k))

        @precondition(lambda self: self.e is not None and self.e.open)
        @rule(j=st.integers(0, 3))
        def finish(self, j):
            self.e.step(("finish", j))

        @rule(n=st.integers(0, 3))
        def declare(self, n):
            self.e.step(("declare", n))

        @rule(i=st.integers(0, 5))
        def objs(self, i):
            self.e.step(("objs", i % len(self.e.pool)))

        @rule(i=st.integers(0, 5), j=st.integers(0, 5), k=st.integers(1, 12), first_strict=st.booleans())
        def overlap(self, i, j, k, first_strict):
            # two decodes in different modes in flight at once, advanced alternately, the first one finished last
            if len(self.e.open) > 2:
                return
            n = len(self.e.pool)
            self.e.step(("open", i % n, "strict" if first_strict else "warn"))
            self.e.step(("open", j % n, "warn" if first_strict else "strict"))
            for _ in range(3):
                if len(self.e.open) >= 2:
                    self.e.step(("adv", len(self.e.open) - 2, k))
                if len(self.e.open) >= 1:
                    self.e.step(("adv", len(self.e.open) - 1, k))
            if self.e.open:
                self.e.step(("finish", len(self.e.open) - 1))
            if self.e.open:
                self.e.step(("finish", len(self.e.open) - 1))

        @rule(i=st.integers(0, 5))
        def split(self, i):
            streams = [k for k, p in enumerate(self.e.pool) if p.get("parts")]
            if streams:
                self.e.step(("split", streams[i % len(streams)]))

        @rule(i=st.integers(0, 5))
        def canon(self, i):
            self.e.step(("canon", i % len(self.e.pool)))

        def teardown(self):
            e = self.e
            if e is None:
                return
            for slot in list(e.open):
                slot[2].close()
            nt = e.nontrivial()
            ctx.case(json.dumps(e.history).encode() + b"|".join(p["data"] for p in e.pool), nt, sample={"pool": [(p["type"], p["cc"], "enc-area" if p["encrypted_area"] else "") for p in e.pool], "history": e.history[:25]} if nt else None)
            ctx.count("histories")
            ctx.count("steps", len(e.history))
            if e.max_open >= 2:
                ctx.count("histories-with-2+-open-decodes")
            if nt:
                ctx.count("nontrivial-histories")
            if fresh_budget[0] > 0 and nt:
                fresh_budget[0] -= 1
                for i, p in enumerate(e.pool[:2]):
                    if (i, "decode") in e.first:
                        tup, kind = fresh_interpreter_tuples(p)
                        mine = [list(t) for t in e.first[(i, "decode")][2]]
                        ctx.count("fresh-interpreter-comparisons")
                        if tup != mine:
                            ctx.problem("C12:differs-from-fresh-interpreter", f"first decode of message {i} in this history differs from the same decode in a fresh interpreter; history {e.history}", e.payload())

    phases = [Phase.explicit, Phase.generate, Phase.target] + ([] if q and os.environ.get("VERIF_SHRINK") != "1" else [Phase.shrink])
    stt = settings(
        max_examples=ctx.share(320 if q else 5000),
        stateful_step_count=30 if q else 60,
        database=None,
        deadline=None,
        report_multiple_bugs=False,
        suppress_health_check=list(HealthCheck),
        phases=phases,
        print_blob=False,
        verbosity=hypothesis.Verbosity.quiet,
    )
    seeded = hypothesis.seed(derive_seed(ctx.seed, ID, ctx.shard, "machine"))(Machine)
    ctx._last_failure = None
    try:
        run_state_machine_as_test(seeded, settings=stt)
    except CheckFailure:
        ctx.failures.append(ctx._last_failure)
    except HarnessError:
        raise
    except (hypothesis.errors.Flaky, hypothesis.errors.FlakyStrategyDefinition) as exc:
        # The harness is deterministic (seeded draws, no clock, no own RNG): a history that behaves differently when
        # hypothesis re-executes it means the library's results depend on what was decoded before - the property itself.
        if ctx._last_failure is not None:
            ctx.failures.append(ctx._last_failure)
        else:
            ctx.failures.append({"signature": "C12:history-not-reproducible", "message": f"re-executing the same generated history gave a different course of events ({type(exc).__name__}: {str(exc)[:300]}): decoding depends on process state left by earlier decodes", "payload": {"note": "re-run the check with the same VERIF_SEED"}})
    except hypothesis.errors.HypothesisException as exc:
        if ctx._last_failure is not None:
            ctx.failures.append(ctx._last_failure)
        else:
            raise HarnessError(f"hypothesis error: {exc!r}") from exc
    except Exception as exc:  # noqa: BLE001
        from ..runner import unexpected_exception

        ctx.failures.append(unexpected_exception(exc, "machine"))


def replay(ctx, payload):
    L = layout()
    if "pool" not in payload:
        print("this finding has no stand-alone replay: re-run the check with the same VERIF_SEED")
        return
    pool = [dict(p, encrypted_area=False) for p in payload["pool"]]
    e = Engine(ctx, L, pool)
    for s in payload["history"]:
        if s[0] in ("adv", "finish") and not e.open:
            continue
        e.step(tuple(s))
