"""C17 - attribute words decompose into fields that partition their bits."""
import inspect

from hypothesis import strategies as st

from .. import observe as O
from ..pretty import parse_row, strip_ansi
from .common import layout

ID = "C17"
LEVEL = "exploration"
HISTORY = True  # every second shard first runs a prelude of earlier library use (history.py)
RULE = (
    "all 12 TPMA_* types: all field masks (exhaustive); all 256 values of the 8-bit types (exhaustive); for 32-bit types walking "
    "ones, walking zeros, every single-field-all-ones pattern and its complement, 0, all-ones and hypothesis-drawn words. Oracle "
    "(derived from the statement, not from the snapshot): masks pairwise disjoint and their union == 2^bits-1; accessor == "
    "(v & mask) >> ctz(mask); pretty printer: one row per field holding the field's bits at their positions and dots elsewhere, "
    "overlay == binary value with every position covered exactly once. Non-trivial = at least two fields non-zero; distinct = (type, value)."
)
ASSUMPTIONS = ["field masks are read from the live classes; the set of TPMA_* types is the snapshot's list of bit-field types"]


def ctz(m):
    return (m & -m).bit_length() - 1


def live_masks(T):
    out = {}
    for name, attr in inspect.getmembers(T):
        if name.startswith("_") or inspect.isroutine(attr):
            continue
        out[name] = int(attr._value)
    return out


def check_masks(ctx, L, tname):
    T = O.lib_type(tname)
    bits = 8 * L.width(tname)
    masks = live_masks(T)
    ctx.case((tname, "masks"), True, sample={"type": tname, "masks": {k: hex(v) for k, v in masks.items()}})
    ctx.add("types", tname)
    seen = 0
    for name, m in sorted(masks.items(), key=lambda kv: kv[1]):
        if m == 0:
            ctx.problem(f"C17:partition:{tname}", f"{tname}.{name} has an empty mask", {"type": tname})
        if seen & m:
            ctx.problem(f"C17:partition:{tname}", f"{tname}.{name} = {m:#x} overlaps another field (bits {seen & m:#x})", {"type": tname})
        seen |= m
    full = (1 << bits) - 1
    if seen != full:
        ctx.problem(f"C17:partition:{tname}", f"{tname}: bits {full & ~seen:#x} belong to no field", {"type": tname})
    return masks


def check_word(ctx, L, tname, v, masks=None):
    from tpmstream.common.event import MarshalEvent
    from tpmstream.common.path import Path, PathNode
    from tpmstream.io.pretty import Pretty

    T = O.lib_type(tname)
    bits = 8 * L.width(tname)
    if masks is None:
        masks = live_masks(T)
    payload = {"type": tname, "value": v}
    nz = sum(1 for m in masks.values() if v & m)
    ctx.case((tname, v), nz >= 2, sample={"type": tname, "value": hex(v)})
    x = ctx.guard(lambda: T(v), "C17:construct", payload)
    if x is None:
        return
    for name, m in masks.items():
        got = ctx.guard(lambda: getattr(x, name), "C17:accessor", payload)
        want = (v & m) >> ctz(m)
        if got is None or int(got) != want:
            ctx.problem("C17:accessor", f"{tname}({v:#x}).{name} gives {got!r}, expected {want} (mask {m:#x})", payload)
            return
    path = Path(PathNode("")) / PathNode("word")
    rows = ctx.guard(lambda: list(Pretty.unmarshal([MarshalEvent(path, T, x)])), "C17:pretty", payload)
    if rows is None:
        return
    judge_rows(ctx, tname, v, bits, masks, rows, payload, "word", 2)


def judge_rows(ctx, tname, v, bits, masks, rows, payload, head_name, depth, where=""):
    """The rows printed for one attribute word: the word's row, then one row per field with its bits at their positions."""
    parsed = [parse_row(r) for r in rows]
    if any(p is None for p in parsed) or not parsed:
        ctx.problem("C17:rows-unparsable", f"{tname}({v:#x}){where}: rows {rows!r}", payload)
        return
    head, attr_rows = parsed[0], parsed[1:]
    if head.hex != v.to_bytes(bits // 8, "big").hex() or (head_name is not None and head.name != head_name):
        ctx.problem("C17:head-row", f"{tname}({v:#x}){where}: first row {head}", payload)
        return
    if len(attr_rows) != len(masks):
        ctx.problem("C17:row-count", f"{tname}({v:#x}){where}: {len(attr_rows)} bit rows for {len(masks)} fields", payload)
        return
    binary = format(v, f"0{bits}b")
    cover = [0] * bits
    names = set()
    for r in attr_rows:
        pattern = r.value.split(" ")[0]
        if r.name not in masks or r.name in names or r.depth != depth or r.hex != "" or r.type != "":
            ctx.problem("C17:row-shape", f"{tname}({v:#x}){where}: unexpected bit row {r}", payload)
            return
        names.add(r.name)
        m = masks[r.name]
        want = "".join(binary[i] if (m >> (bits - 1 - i)) & 1 else "." for i in range(bits))
        if pattern != want:
            ctx.problem("C17:row-bits", f"{tname}({v:#x}).{r.name}{where}: row shows {pattern!r}, expected {want!r}", payload)
            return
        for i, ch in enumerate(pattern):
            if ch != ".":
                cover[i] += 1
    if any(c != 1 for c in cover):
        ctx.problem("C17:overlay", f"{tname}({v:#x}){where}: bit positions covered {cover} times", payload)


def check_in_context(ctx, L, tname, v, other_types):
    """The same word printed inside one stream with other events: directly behind a byte buffer, and next to a word of
    another bit-field type (and a response code) holding the same bytes.  Each word must still get exactly its own rows."""
    from tpmstream.common.event import MarshalEvent
    from tpmstream.common.path import Path, PathNode
    from tpmstream.io.pretty import Pretty

    T = O.lib_type(tname)
    BYTE = O.lib_type("BYTE")
    bits = 8 * L.width(tname)
    root = Path(PathNode(""))
    events = [
        MarshalEvent(root / PathNode("nonce"), list[BYTE], ...),
        MarshalEvent(root / PathNode("nonce", 0), BYTE, BYTE(0xAB)),
        MarshalEvent(root / PathNode("nonce", 1), BYTE, BYTE(0xCD)),
    ]
    words = []
    same_width = [t for t in other_types if L.width(t) == L.width(tname) and t != tname]
    order = [same_width[v % len(same_width)]] if same_width else []
    if bits == 32:
        order.append("TPM_RC")
    # the word under test comes last, so rows cached for an earlier word with the same bytes would be reused for it
    for k, t in enumerate(order + [tname]):
        U = O.lib_type(t)
        x = U(v)
        events.append(MarshalEvent(root / PathNode(f"word{k}"), U, x))
        words.append((f"word{k}", t, x))
    payload = {"type": tname, "value": v, "context": [w[1] for w in words]}
    rows = ctx.guard(lambda: list(Pretty.unmarshal(events)), "C17:pretty-context", payload)
    if rows is None:
        return
    parsed = [parse_row(r) for r in rows]
    if any(p is None for p in parsed):
        ctx.problem("C17:rows-unparsable", f"{tname}({v:#x}) in context: {rows!r}", payload)
        return
    ctx.case((tname, v, "context"), True, sample={"type": tname, "value": hex(v), "printed_with": [w[1] for w in words]} if v in (1, 0x80) else None)
    binary = format(v, f"0{bits}b")
    i = 1  # row 0 is the buffer
    for name, t, x in words:
        if i >= len(parsed) or parsed[i].name != name:
            ctx.problem("C17:context:word-row", f"{tname}({v:#x}) in context {payload['context']}: row for {name} ({t}) missing, rows {[p.name for p in parsed]}", payload)
            return
        i += 1
        expected = [a._name for a in x.attributes()]
        masks = {a._name: int(a._value) for a in x.attributes()}
        got = []
        while i < len(parsed) and parsed[i].type == "" and parsed[i].depth == 2:
            got.append(parsed[i])
            i += 1
        if sorted(r.name for r in got) != sorted(expected):
            ctx.problem("C17:context:rows", f"{t}({v:#x}) printed {'behind a byte buffer' if name == 'word0' else 'after ' + str(payload['context'])}: bit rows {[r.name for r in got]}, its fields are {expected}", payload)
            return
        for r in got:
            m = masks[r.name]
            want = "".join(binary[j] if (m >> (bits - 1 - j)) & 1 else "." for j in range(bits))
            if r.value.split(" ")[0] != want:
                ctx.problem("C17:context:row-bits", f"{t}({v:#x}).{r.name} printed in context shows {r.value.split(' ')[0]!r}, expected {want!r}", payload)
                return


def check_class_flags(ctx, L, tname, masks):
    """The class-level flags (TPMA_OBJECT.sign ...) are values of the type like any other: printed as an event value they
    show their own bits; combining them in place (`attrs |= TPMA_OBJECT.sign`) leaves the declared flags as they are."""
    import operator

    from tpmstream.common.event import MarshalEvent
    from tpmstream.common.path import Path, PathNode
    from tpmstream.io.pretty import Pretty

    T = O.lib_type(tname)
    bits = 8 * L.width(tname)
    path = Path(PathNode("")) / PathNode("word")
    names = list(masks)
    for name in names:
        flag = ctx.guard(lambda: getattr(T, name), "C17:class-flag", {"type": tname, "flag": name})
        if flag is None or not isinstance(flag, T):
            continue
        v = masks[name]
        payload = {"type": tname, "value": v, "class_flag": name}
        ctx.case((tname, "class-flag", name), True, sample={"type": tname, "class_level_flag": name, "value": hex(v)} if name == names[0] else None)
        ctx.count("class-level-flags")
        if int(flag) != v:
            ctx.problem("C17:class-flag:value", f"{tname}.{name} carries {int(flag):#x}, its mask is {v:#x}", payload)
            return
        rows = ctx.guard(lambda: list(Pretty.unmarshal([MarshalEvent(path, T, flag)])), "C17:pretty", payload)
        if rows is None:
            return
        judge_rows(ctx, tname, v, bits, masks, rows, payload, "word", 2, where=f" (the class-level flag {tname}.{name} as event value)")
    for sym, op in (("|=", operator.ior), ("&=", operator.iand), ("^=", operator.ixor)):
        for a, b in zip(names, names[1:] + names[:1]):
            x = ctx.guard(lambda: getattr(T, a), "C17:class-flag", {"type": tname, "flag": a})
            y = ctx.guard(lambda: getattr(T, b), "C17:class-flag", {"type": tname, "flag": b})
            if x is None or y is None:
                continue
            payload = {"type": tname, "value": masks[a], "class_flag": a, "op": sym}
            r = ctx.guard(lambda: op(x, y), "C17:inplace", payload)
            want = op(masks[a], masks[b])
            ctx.count("class-level-flag-inplace-ops")
            if r is not None and int(r) != want:
                ctx.problem("C17:inplace:result", f"attrs = {tname}.{a}; attrs {sym} {tname}.{b} gives {int(r):#x}, expected {want:#x}", payload)
                return
            now = live_masks(T)
            if now != masks:
                diff = {k: (hex(masks.get(k, 0)), hex(now.get(k, 0)) if isinstance(now.get(k, 0), int) else repr(now.get(k))) for k in set(masks) | set(now) if masks.get(k) != now.get(k)}
                ctx.problem("C17:inplace:masks-changed", f"after attrs = {tname}.{a}; attrs {sym} {tname}.{b} the declared masks of {tname} changed: {diff}", payload)
                return
    full = (1 << bits) - 1
    check_word(ctx, L, tname, full & 0x5A5A5A5B, masks)


def check_cli_terminal(ctx, L, tname, v, columns, masks=None):
    """The same word printed by `tpmstream convert` with its output on a (pseudo) terminal `columns` wide: the terminal may
    wrap long rows, the program must still print every row completely."""
    import fcntl
    import os
    import pty
    import struct
    import subprocess
    import sys
    import tempfile
    import termios

    T = O.lib_type(tname)
    bits = 8 * L.width(tname)
    masks = masks or live_masks(T)
    payload = {"type": tname, "value": v, "terminal_columns": columns}
    with tempfile.TemporaryDirectory(prefix="tv-c17-") as d:
        with open(os.path.join(d, "word.hex"), "w") as f:
            f.write(v.to_bytes(bits // 8, "big").hex() + "\n")
        try:
            master, slave = pty.openpty()
            fcntl.ioctl(slave, termios.TIOCSWINSZ, struct.pack("HHHH", 50, columns, 0, 0))
        except OSError:
            ctx.count("pseudo-terminal-unavailable(skipped)")  # no pty devices in this environment: nothing to observe
            return
        env = dict(os.environ, PYTHONPATH=O.SRC, PYTHONHASHSEED="0", PYTHONIOENCODING="utf-8", COLUMNS=str(columns), TERM="xterm")
        p = subprocess.Popen([sys.executable, "-m", "tpmstream", "convert", "word.hex", "--in", "hex", "--type", tname], stdout=slave, stderr=subprocess.PIPE, stdin=subprocess.DEVNULL, env=env, cwd=d)
        os.close(slave)
        chunks = []
        while True:
            try:
                b = os.read(master, 65536)
            except OSError:
                break
            if not b:
                break
            chunks.append(b)
        code = p.wait(timeout=300)
        err = p.stderr.read().decode("utf-8", "replace")
        os.close(master)
    ctx.case(("cli-terminal", tname, v, columns), True, sample={"type": tname, "value": hex(v), "terminal_columns": columns})
    ctx.count(f"cli-terminal-runs:{columns}")
    if code != 0:
        ctx.problem("C17:cli-terminal:exit", f"`tpmstream convert word.hex --in hex --type {tname}` ({v:#x}) on a {columns}-column terminal: exit status {code}, stderr {err[-300:]!r}", payload)
        return
    rows = [r for r in b"".join(chunks).decode("utf-8", "replace").replace("\r\n", "\n").split("\n") if strip_ansi(r).strip()]
    judge_rows(ctx, tname, v, bits, masks, rows, payload, None, 1, where=f" printed by the CLI on a {columns}-column terminal")


def words_32(masks, bits):
    full = (1 << bits) - 1
    vals = {0, full}
    for i in range(bits):
        vals.add(1 << i)
        vals.add(full ^ (1 << i))
    for m in masks.values():
        vals.add(m)
        vals.add(full ^ m)
        vals.add(m & -m)
    return sorted(vals)


def run_shard(ctx):
    L = layout()
    types = sorted(n for n, p in L.prims.items() if p["kind"] == "bitfield")
    for i, t in enumerate(types):
        bits = 8 * L.width(t)
        holder = {}

        def masks_part(t=t):
            holder["m"] = check_masks(ctx, L, t)

        if i % ctx.nshards == ctx.shard:
            ctx.run_plain(masks_part, f"masks:{t}")
        masks = holder.get("m") or live_masks(O.lib_type(t))
        if bits == 8:
            vals = ctx.mine(list(range(256)))
        else:
            vals = ctx.mine(words_32(masks, bits))

        def loop(t=t, vals=vals, masks=masks):
            for v in vals:
                check_word(ctx, L, t, v, masks)
                check_in_context(ctx, L, t, v, types)

        ctx.run_plain(loop, f"words:{t}")
        if (i + 5) % ctx.nshards == ctx.shard:
            ctx.run_plain(lambda t=t, masks=masks: check_class_flags(ctx, L, t, masks), f"class-flags:{t}")
        if i % ctx.nshards == ctx.shard:
            full = (1 << bits) - 1
            for columns, v in ((180, full), (150, full & 0x5A5A5A5B), (100, 1), (80, full)):
                ctx.run_plain(lambda t=t, v=v, columns=columns, masks=masks: check_cli_terminal(ctx, L, t, v, columns, masks), f"cli-terminal:{t}:{columns}")
        if bits > 8:
            n = ctx.share(2000 if ctx.quick() else 50000)
            ctx.run_given(st.integers(0, (1 << bits) - 1), lambda v, t=t, masks=masks: check_word(ctx, L, t, v, masks), n, name=f"random:{t}")


def finalize(merged):
    L = layout()
    types = {n for n, p in L.prims.items() if p["kind"] == "bitfield"}
    missing = types - set(merged["sets"].get("types", ()))
    if missing:
        return {"harness_error": f"bit-field types never exercised: {sorted(missing)}"}
    return {"coverage": {"bitfield_types": len(types), "exhaustive_subspaces": "all masks; all values of the 8-bit types"}}


def replay(ctx, payload):
    L = layout()
    if "class_flag" in payload:
        check_class_flags(ctx, L, payload["type"], live_masks(O.lib_type(payload["type"])))
    elif "terminal_columns" in payload:
        check_cli_terminal(ctx, L, payload["type"], payload["value"], payload["terminal_columns"])
    elif "value" in payload:
        check_word(ctx, L, payload["type"], payload["value"])
    else:
        check_masks(ctx, L, payload["type"])
