"""C17 - attribute words decompose into fields that partition their bits."""
import inspect

from hypothesis import strategies as st

from .. import observe as O
from ..pretty import parse_row
from .common import layout

ID = "C17"
LEVEL = "exploration"
RULE = (
    "all 12 TPMA_* types: all field masks (exhaustive); all 256 values of the 8-bit types (exhaustive); for 32-bit types walking "
    "ones, walking zeros, every single-field-all-ones pattern and its complement, 0, all-ones and hypothesis-drawn words. Oracle "
    "(derived from the statement, not from the snapshot): masks pairwise disjoint and their union == 2^bits-1; accessor == "
    "(v & mask) >> ctz(mask); pretty printer: one row per field holding the field's bits at their positions and dots elsewhere, "
    "overlay == binary value with every position covered exactly once. Non-trivial = at least two fields non-zero; distinct = (type, value)."
)
ASSUMPTIONS = ["field masks are read from the live classes; the set of TPMA_* types is the snapshot's list of bit-field types"]


def ctz(m):
    return (m & -m).bit_length() - 1


def live_masks(T):
    out = {}
    for name, attr in inspect.getmembers(T):
        if name.startswith("_") or inspect.isroutine(attr):
            continue
        out[name] = int(attr._value)
    return out


def check_masks(ctx, L, tname):
    T = O.lib_type(tname)
    bits = 8 * L.width(tname)
    masks = live_masks(T)
    ctx.case((tname, "masks"), True, sample={"type": tname, "masks": {k: hex(v) for k, v in masks.items()}})
    ctx.add("types", tname)
    seen = 0
    for name, m in sorted(masks.items(), key=lambda kv: kv[1]):
        if m == 0:
            ctx.problem(f"C17:partition:{tname}", f"{tname}.{name} has an empty mask", {"type": tname})
        if seen & m:
            ctx.problem(f"C17:partition:{tname}", f"{tname}.{name} = {m:#x} overlaps another field (bits {seen & m:#x})", {"type": tname})
        seen |= m
    full = (1 << bits) - 1
    if seen != full:
        ctx.problem(f"C17:partition:{tname}", f"{tname}: bits {full & ~seen:#x} belong to no field", {"type": tname})
    return masks


def check_word(ctx, L, tname, v, masks=None):
    from tpmstream.common.event import MarshalEvent
    from tpmstream.common.path import Path, PathNode
    from tpmstream.io.pretty import Pretty

    T = O.lib_type(tname)
    bits = 8 * L.width(tname)
    if masks is None:
        masks = live_masks(T)
    payload = {"type": tname, "value": v}
    nz = sum(1 for m in masks.values() if v & m)
    ctx.case((tname, v), nz >= 2, sample={"type": tname, "value": hex(v)})
    x = ctx.guard(lambda: T(v), "C17:construct", payload)
    if x is None:
        return
    for name, m in masks.items():
        got = ctx.guard(lambda: getattr(x, name), "C17:accessor", payload)
        want = (v & m) >> ctz(m)
        if got is None or int(got) != want:
            ctx.problem("C17:accessor", f"{tname}({v:#x}).{name} gives {got!r}, expected {want} (mask {m:#x})", payload)
            return
    path = Path(PathNode("")) / PathNode("word")
    rows = ctx.guard(lambda: list(Pretty.unmarshal([MarshalEvent(path, T, x)])), "C17:pretty", payload)
    if rows is None:
        return
    parsed = [parse_row(r) for r in rows]
    if any(p is None for p in parsed) or not parsed:
        ctx.problem("C17:rows-unparsable", f"{tname}({v:#x}): rows {rows!r}", payload)
        return
    head, attr_rows = parsed[0], parsed[1:]
    if head.hex != v.to_bytes(bits // 8, "big").hex() or head.name != "word":
        ctx.problem("C17:head-row", f"{tname}({v:#x}): first row {head}", payload)
        return
    if len(attr_rows) != len(masks):
        ctx.problem("C17:row-count", f"{tname}({v:#x}): {len(attr_rows)} bit rows for {len(masks)} fields", payload)
        return
    binary = format(v, f"0{bits}b")
    cover = [0] * bits
    names = set()
    for r in attr_rows:
        pattern = r.value.split(" ")[0]
        if r.name not in masks or r.name in names or r.depth != 2 or r.hex != "" or r.type != "":
            ctx.problem("C17:row-shape", f"{tname}({v:#x}): unexpected bit row {r}", payload)
            return
        names.add(r.name)
        m = masks[r.name]
        want = "".join(binary[i] if (m >> (bits - 1 - i)) & 1 else "." for i in range(bits))
        if pattern != want:
            ctx.problem("C17:row-bits", f"{tname}({v:#x}).{r.name}: row shows {pattern!r}, expected {want!r}", payload)
            return
        for i, ch in enumerate(pattern):
            if ch != ".":
                cover[i] += 1
    if any(c != 1 for c in cover):
        ctx.problem("C17:overlay", f"{tname}({v:#x}): bit positions covered {cover} times", payload)


def words_32(masks, bits):
    full = (1 << bits) - 1
    vals = {0, full}
    for i in range(bits):
        vals.add(1 << i)
        vals.add(full ^ (1 << i))
    for m in masks.values():
        vals.add(m)
        vals.add(full ^ m)
        vals.add(m & -m)
    return sorted(vals)


def run_shard(ctx):
    L = layout()
    types = sorted(n for n, p in L.prims.items() if p["kind"] == "bitfield")
    for i, t in enumerate(types):
        bits = 8 * L.width(t)
        holder = {}

        def masks_part(t=t):
            holder["m"] = check_masks(ctx, L, t)

        if i % ctx.nshards == ctx.shard:
            ctx.run_plain(masks_part, f"masks:{t}")
        masks = holder.get("m") or live_masks(O.lib_type(t))
        if bits == 8:
            vals = ctx.mine(list(range(256)))
        else:
            vals = ctx.mine(words_32(masks, bits))

        def loop(t=t, vals=vals, masks=masks):
            for v in vals:
                check_word(ctx, L, t, v, masks)

        ctx.run_plain(loop, f"words:{t}")
        if bits > 8:
            n = ctx.share(2000 if ctx.quick() else 50000)
            ctx.run_given(st.integers(0, (1 << bits) - 1), lambda v, t=t, masks=masks: check_word(ctx, L, t, v, masks), n, name=f"random:{t}")


def finalize(merged):
    L = layout()
    types = {n for n, p in L.prims.items() if p["kind"] == "bitfield"}
    missing = types - set(merged["sets"].get("types", ()))
    if missing:
        return {"harness_error": f"bit-field types never exercised: {sorted(missing)}"}
    return {"coverage": {"bitfield_types": len(types), "exhaustive_subspaces": "all masks; all values of the 8-bit types"}}


def replay(ctx, payload):
    L = layout()
    if "value" in payload:
        check_word(ctx, L, payload["type"], payload["value"])
    else:
        check_masks(ctx, L, payload["type"])
