"""C09 - a command/response stream decodes as its messages decoded one by one (metamorphic: stream vs per message)."""
from .. import gen, observe as O
from ..refdec import ELLIPSIS
from .common import case_payload, first_diff, layout, model_for_case

ID = "C09"
LEVEL = "exploration"
MIX = True  # a share of the decodes goes through the other front ends and byte sources (context.py)
MIX_EXCLUDE = ("pcapng",)  # these checks look at the object the decoder returns; the pcapng front end does not pass it on
HISTORY = True  # every second shard first runs a prelude of earlier library use (history.py)
OLANE = True  # two more shards run in an interpreter started with -O (runner.start_olane)
RULE = (
    "hypothesis-generated streams of 1..n command/response pairs over all command codes, with failed responses, 0-3 sessions, "
    "command- and response-parameter encryption mixed, optionally ending in a lone command. Oracle (metamorphic): events(stream) == "
    "concatenation of the individual decodes, each response decoded with the command code of the command immediately before it (known "
    "to the generator) and parameter_encryption = one of that command's sessions has `encrypt`; events_to_objs(stream events) yields "
    "one object per message, in order, equal to the object of the individual decode; the reference model's stream events agree too. "
    "Non-trivial = >= 2 pairs with different command codes and at least one response with parameters; distinct = stream bytes."
)
ASSUMPTIONS = ["message boundaries are the generator's (each message's own size field is exact)"]


def message_ranges(L, case):
    """[(kind, cc, enc, first byte, end byte)] from the generator's token ranges."""
    offs = [0]
    for p, t, v in case.tokens:
        offs.append(offs[-1] + (0 if v == ELLIPSIS else L.width(t)))
    out = []
    for m in case.meta["messages"]:
        a, b = m["first_token"], m["first_token"] + m["n_tokens"]
        out.append((m["kind"], m["cc"], bool(m.get("enc")), offs[a], offs[b], m))
    return out


def check_case(ctx, L, case):
    from tpmstream.common.object import events_to_objs

    O.reset_state()
    model_for_case(L, case)
    payload = case_payload(case)
    payload["meta"] = {"messages": case.meta["messages"]}
    msgs = message_ranges(L, case)
    ccs = {m[1] for m in msgs}
    with_params = any(m[0] == "Response" and not m[5].get("failed") and L.struct(L.cc_by_code[m[1]][1]["response_params"])["fields"] for m in msgs)
    ctx.case(case.data, len(ccs) >= 2 and with_params, sample={"messages": [(m[0], L.cc_by_code[m[1]][0], m[5].get("sessions"), "failed" if m[5].get("failed") else "", "enc" if m[2] or m[5].get("decrypt") else "") for m in msgs], "len": len(case.data)})
    ctx.count(f"messages:{len(msgs)}")
    for m in msgs:
        ctx.add("command_codes", m[1])
        if m[5].get("failed"):
            ctx.count("failed-responses")
        if m[2]:
            ctx.count("encrypted-responses")
        if m[5].get("decrypt"):
            ctx.count("encrypted-commands")
    if len(msgs) % 2:
        ctx.count("lone-trailing-command")
    s = O.run_decode("CommandResponseStream", case.data, strict=True)
    if s.outcome["kind"] != "ok":
        ctx.problem(f"C09:stream-rejected:{s.outcome['kind']}", f"well-formed stream not accepted: {s.outcome}; stream {case.data.hex()}", payload)
        return
    concat, objs = [], []
    for kind, cc, enc, a, b, m in msgs:
        if kind == "Command":
            o = O.run_decode("Command", case.data[a:b], strict=True)
        else:
            o = O.run_decode("Response", case.data[a:b], command_code=cc, enc=enc, strict=True)
        if o.outcome["kind"] != "ok":
            ctx.count("individual-not-accepted")
            return  # acceptance of single messages is C01's business
        concat.extend(o.raw)
        objs.append(o.obj)
    got = [O.event_tuple(e) + (O.value_class(e),) for e in s.raw]
    want = [O.event_tuple(e) + (O.value_class(e),) for e in concat]
    d = first_diff(got, want)
    if d is not None:
        ctx.problem("C09:events", f"stream event {d} is {got[d] if d < len(got) else None}, the individual decodes give {want[d] if d < len(want) else None}; stream {case.data.hex()} ({[(m[0], hex(m[1])) for m in msgs]})", payload)
        return
    for i, (x, y) in enumerate(zip(s.raw, concat)):
        if x != y:
            ctx.problem("C09:event-eq", f"stream event {i} {got[i]} does not compare equal to the individual decode's event (declared type objects: {x.type!r} vs {y.type!r})", payload)
            return
    if len(case.data) % 3 == 0 or "identical_consecutive_messages" in case.meta.get("flags", []):
        # the same messages as the packets of a capture (one packet each): boundaries still come from the messages, and a
        # message that repeats the bytes of the one before it is a message of its own
        from tpmstream.io.pcapng import Pcapng

        from .. import context

        cap = context.pcapng_bytes(case.data)
        if cap is not None:
            p = O.run_decode("CommandResponseStream", cap, strict=True, marshal=Pcapng.marshal)
            ctx.count("streams-as-captures")
            pg = [O.event_tuple(e) + (O.value_class(e),) for e in p.raw]
            d = first_diff(pg, want)
            if p.outcome["kind"] != "ok" or d is not None:
                ctx.problem("C09:capture", f"the messages as packets of a capture end with {p.outcome['kind']}; event {d} is {pg[d] if d is not None and d < len(pg) else None}, the individual decodes give {want[d] if d is not None and d < len(want) else None}; stream {case.data.hex()} ({[(m[0], hex(m[1])) for m in msgs]})", payload)
                return
    res = ctx.guard(lambda: list(events_to_objs(list(s.raw))), "C09:events_to_objs", payload)
    if res is None:
        return
    if len(res) != len(msgs):
        ctx.problem("C09:object-count", f"{len(res)} objects for {len(msgs)} messages; stream {case.data.hex()}", payload)
        return
    for i, (a_, b_) in enumerate(zip(res, objs)):
        same = ctx.guard(lambda: bool(a_ == b_) and type(a_) is type(b_), "C09:obj-eq", payload)
        if same is False:
            ctx.problem("C09:object-differs", f"object {i} of the stream ({type(a_).__name__}) differs from the individually decoded {type(b_).__name__}; stream {case.data.hex()}", payload)
            return


def run_shard(ctx):
    L = layout()
    q = ctx.quick()
    ctx.run_given(gen.streams(L, max_pairs=4 if q else 8, big=not q), lambda c: check_case(ctx, L, c), ctx.share(2500 if q else 30000), name="streams")
    if ctx.shard < (4 if q else 16):
        collected = []  # judged outside hypothesis, which raises the recursion limit while a test runs
        ctx.run_given(gen.long_streams(L), collected.append, 1 if q else 3, name="long-stream")
        for c in collected:
            ctx.run_plain(lambda c=c: check_case(ctx, L, c), "long-stream")


def finalize(merged):
    L = layout()
    n = len(merged["sets"].get("command_codes", ()))
    return {"coverage": {"command_codes_in_streams": n, "of": len(L.commands)}}


def replay(ctx, payload):
    from .common import ReplayCase

    L = layout()
    c = ReplayCase(L, payload)
    c.tokens = [list(e) for e in c.events]
    check_case(ctx, L, c)
